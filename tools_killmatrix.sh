#!/bin/bash
# Applies every kept seeded change (/verif/seeded/*/patch.diff) to /repo in turn, runs the quick check(s) of the
# property it breaks (and any extra properties given in meta.json "also"), and reverts /repo straight afterwards.
# Usage: ./tools_killmatrix.sh [seed-id ...]      Output: one line per (seed, property): CAUGHT / MISSED / INCONCLUSIVE
cd /verif
if ! git -C /repo diff --quiet; then echo "/repo has uncommitted changes; refusing"; exit 2; fi
SEEDS=${@:-$(ls seeded)}
for s in $SEEDS; do
  d=seeded/$s
  [ -f $d/patch.diff ] || continue
  prop=$(python3 -c "import json;print(json.load(open('$d/meta.json'))['property'])")
  tier=${KILL_TIER:-quick}
  if ! git -C /repo apply /verif/$d/patch.diff 2>/dev/null; then echo "$s $prop PATCH-DOES-NOT-APPLY"; continue; fi
  for p in $prop $(python3 -c "import json;print(' '.join(json.load(open('$d/meta.json')).get('also',[])))"); do
    out=$(./run.sh $p $tier 2>&1); code=$?
    case $code in
      1) echo "$s $p CAUGHT ($(echo "$out" | grep -c '^VIOLATION') violation lines; $(echo "$out" | grep -m1 'oracle=' | cut -c1-160))" ;;
      0) echo "$s $p MISSED" ;;
      *) echo "$s $p INCONCLUSIVE ($(echo "$out" | grep -m1 INCONCLUSIVE | cut -c1-120))" ;;
    esac
  done
  git -C /repo checkout -- . 
done
# evidence files now describe mutated trees: restore them by re-running nothing here; the caller re-runs checks on the clean tree
./build.sh harness; ./build.sh cli  # leave a clean-tree build behind
