#!/bin/bash
# Construction-time tool (never run by a check): full sweep of every closed pool on the CLEAN tree, classifying every violation.
# Usage: ./tools_triage.sh <outdir> [props...]   then: python3 tools_mkfindings.py --import <outdir>
# Incremental: FROM='adv#950,repro#50' ./tools_triage.sh <outdir>  sweeps only entries appended to those corpus lists (then --merge).
# Refuses to run on a modified /repo (a seeded build would poison the findings); works from a copy of the binary.
set -u
OUT=${1:?outdir}; shift
PROPS=${*:-"C13 C12 C19 C18 C07 C11 C05 C10 C09 C06 C04 C08 C02 C01 C03"}
cd /verif
git -C /repo diff --quiet || { echo "/repo has local modifications: refusing"; exit 2; }
./build.sh harness || { echo "build failed"; exit 2; }
mkdir -p "$OUT"
cp target/release/tyv "$OUT/tyv"
export VERIF_DIR=/verif
[ -n "${FROM:-}" ] && export TYV_ORIGIN_FROM="$FROM"
for p in $PROPS; do
  s=$(date +%s)
  "$OUT/tyv" triage $p full > "$OUT/triage_$p.json" 2> "$OUT/triage_$p.err"
  echo "$p rc=$? $(( $(date +%s) - s ))s $(tail -1 "$OUT/triage_$p.err" | cut -c1-200)"
done
echo ALLDONE
