#!/usr/bin/env python3
"""Regenerates /verif/MANIFEST.json (kept in a script so that the 19 entries stay consistent)."""
import json
repo_commits = []
import subprocess
hook = subprocess.run(['git','-C','/repo','log','--format=%H %s'],capture_output=True,text=True).stdout.splitlines()
hook_commits=[l.split()[0] for l in hook if 'verif hook' in l]

P = {
 "C01": ("exploration", "format + re-parse + layout-erasing normal form N of both trees compared (output-vs-input tree monitor)", "6.1",
         "Held on every execution of the closed pools explored: for each (input, config) the output was re-parsed with typst-syntax and its normal form N (comments, insignificant whitespace, optional separators, redundant parentheses/braces erased; everything evaluation can see kept) compared with the input's. Exploration is the right level: the property quantifies over all sources and configurations, and the reach comes from systematic enumeration around every anchored mechanism (all widths, tab sizes, mutators at every token gap), not from a proof.",
         "Trusted: typst-syntax 0.13.1 as the definition of the tree; the normal form in harness/src/nf.rs (validated silent on fixtures x all widths, and by the kill matrix); inputs outside the pools are not observed."),
 "C02": ("exploration", "differential compile+render monitor (typst 0.13.1 in-memory world, pixel hashes, document info, diagnostics)", "6.2",
         "Held on every distinct output of the explored pools: original and formatted text were compiled with typst 0.13.1 in an in-memory world and every page rendered at 2 px/pt; page count, page sizes, pixel hashes, document info and warnings were equal, or both failed with the same diagnostics. Exploration over generated typed programs and mutants is what the 561 fixture-bound tests cannot give.",
         "Trusted: typst/typst-render 0.13.1 as reference semantics; rasters at 2 px/pt (not PDF bytes); single-file programs only."),
 "C03": ("exploration", "idempotence monitor: format twice with the same config, compare bytes", "6.3",
         "Held (or attributed to a listed known finding) on every (input, config) explored: fmt(fmt(x)) == fmt(x) byte-wise. The long tail of genuine non-convergence defects is listed in known_findings.json by comment position key, input repair or exact input.",
         "Closed pools only; known findings suppress exactly the listed causes (counterfactual check)."),
 "C04": ("exploration", "output re-parse monitor (typst-syntax error flag) over all widths incl. 0/1/2", "6.4",
         "Held on every execution explored: the output of a well-formed input parses without errors. Width sweep always contains 0, 1, 2 where everything that can break does break; line and block comments are injected before every closer.",
         "typst-syntax 0.13.1's `erroneous()` is the definition of syntax error."),
 "C05": ("exploration", "totality monitor: catch_unwind + panic location hook + CPU budget + refusal rule; the workload runs in a supervised child process whose SIGABRT handler leaves a breadcrumb naming the input being formatted (aborts are confirmed in an isolated worker); isolated worker processes for depth ladders; ASan replay, valgrind memcheck and sharded Miri in the thorough tier", "6.5",
         "No panic, abort, signal or budget overrun on any observed call; refusal iff the reference parser reports errors; the string convenience entry point returns erroneous input unchanged. Depth ladders run in fresh processes so that a stack overflow is attributed, not fatal to the monitor.",
         "CPU budget 10 s/call; release profile; parser-limited depth; sanitizers only see paths the workload drives."),
 "C06": ("exploration", "interleaved word/comment stream monitor over systematic comment injection", "6.6",
         "For every explored input with comments the in-order stream of comments and words of the output tree equals the input's: nothing lost, duplicated, reordered, reworded, or moved across a word. Every token gap of every snippet receives eight comment shapes with unique ids, so histories are unambiguous.",
         "Stream abstraction in harness/src/streams.rs; `not in` counts as one operator symbol; EOL blanks inside literals are C10's matter."),
 "C07": ("exploration", "directive/target pairing monitor over directive injection before every node (six spellings, three payload shapes, eight whitespace separations incl. blank lines)", "6.7",
         "For every in-scope directive the protected node's source text reappears character for character (modulo blanks at line ends) after the directive in the output, and the directive is kept; non-triviality is measured by a twin run with the directive disabled.",
         "Scope as in DESIGN.md section 8 (expression, code body, math body)."),
 "C08": ("exploration", "prose line-structure monitor for every paired Markup node + width-independence of folds inside prose lines + strong/emph elements never become multi-line", "6.8",
         "Every Markup node keeps its list of lines (exact prose text, embedded code opaque) and separators (line break / paragraph break with its number of line feeds); a prose line that stays one line at unlimited width is never folded by a narrower width.",
         "Line abstraction in harness/src/streams.rs; blank runs between words compare as one blank (weaker reading)."),
 "C09": ("exploration", "math gap-class monitor (none/space/newline) for every paired Math/MathDelimited node", "6.9",
         "Gap classes between adjacent atoms and Equation block flags are equal in input and output trees on every explored execution; exempt positions are exactly the statement's list.",
         "Embedded code after # is opaque; empty math arguments carry no gaps."),
 "C10": ("exploration", "literal sequence monitor (kind, text) incl. Raw as (block, lang, lines, fence), after whole-document formatting and after splicing the result of range formatting for every leaf's range of sources with multi-line literals", "6.10",
         "The in-order sequence of literals of the output tree equals the input's on every explored execution (known: blanks before a line break inside string/raw literals, pinned by upstream snapshots).",
         "typst-syntax's Raw::lines()/lang()/block() define raw content."),
 "C11": ("exploration", "output hygiene scan of every returned string, and of every file / standard output the CLI produces when several documents (half of them blank-only) go through one process", "6.11",
         "Every Ok output observed is non-empty, ends with LF and has no LF-delimited line ending in a char::is_whitespace character, including degenerate documents and EOL-blank mutants (ASCII and non-ASCII blanks).",
         "Lines are LF-delimited."),
 "C12": ("exploration", "eight-way indent comparison (tab_spaces 1..8 at width 2^40) with exempt lines recomputed from each output tree", "6.12",
         "For every explored input the eight outputs have equal line counts and remainders and leading spaces = level x unit with a unit-independent level on all non-exempt lines.",
         "Protected code bodies exempt their whole block (weaker reading, DESIGN.md section 8)."),
 "C13": ("exploration", "range-format monitor: catch_unwind, node-range and coverage check, splice + re-parse + normal form; all (start,end) pairs for small sources", "6.13",
         "For sources up to 80 bytes every (start,end) pair on character boundaries incl. past-the-end was requested; no panic, returned ranges are node ranges covering the trimmed request, splices parse and are N-equivalent, refusals are justified by an independent covering-node walk.",
         "Same normal form as C01; start<=end and char boundaries as in the statement."),
 "C14": ("exploration", "CLI history monitor: executable model + before/after snapshots (bytes, mtime, inode, mode) + strace log of write-class syscalls, unprivileged uid", "6.14",
         "On every generated tree and check-mode history nothing under the tree changed (snapshot and syscall log), no file content reached stdout, and the exit status equals the model's.",
         "Model in harness/src/p_cli.rs; read failures inside format-all are finding F14."),
 "C15": ("fault_enumeration", "CLI monitor as C14 plus enumeration of fault assignments to in-place file lists (8^1..8^4) and repeated commands", "6.15",
         "Fault enumeration: every assignment of eight input classes (incl. missing, directory, invalid UTF-8, unreadable, unwritable) to the positions of an in-place file list of length <= 4 is executed twice (thorough tier: all 4680; quick: all of length <= 2 plus a seeded window); modified set, written bytes, bystanders' bytes+mtime, exit status and write syscalls equal the model.",
         "Faults are real (uid 65534 + chmod), not injected into the binary; write-side faults are limited to permission errors."),
 "C16": ("exploration", "front-end agreement monitor: CLI stdout / stdin / in-place / format-all and format_with_width vs the library linked into the harness", "6.16",
         "Byte equality with Typstyle::format_content for every explored (source, column, tab-width, reorder, front-end); several files concatenate in argument order; erroneous input is passed through.",
         "The wasm export cannot be built here (no wasm32 target); it is a one-line forwarder to format_with_width, which is monitored."),
 "C17": ("exploration", "history monitor against a fresh-process reference (sequential, shuffled, 2..64 threads, shared Source, varied environment, configuration crosstalk: all configurations of one text in flight at once) with a call event log; ThreadSanitizer + Miri (many seeds) in the thorough tier", "6.17",
         "Every call in every observed history returned the fresh-process reference byte for byte; twin documents with identical span numbering make span-keyed leftovers visible; overlapping call pairs are counted in evidence.",
         "No internal yield points exist; races are decided by TSan/Miri happens-before, logical leakage by the history monitor."),
 "C18": ("exploration", "hook-counter monitor (conversions <= 2*nodes+8) on corpus and depth ladders; allocation and CPU-growth monitors", "6.18",
         "On every explored input and along depth ladders (20 families to depth 256, seeded mixed nestings) the number of conversion-entry calls counted by the guarded hook stayed within K = 2 times the number of syntax nodes; allocation per call stayed proportional to input+output.",
         "Hook counts entries into four conversion functions; K from the pre-sweep maximum (about 1.0)."),
 "C19": ("exploration", "import-item monitor over reorder off/on outputs and permuted twins", "6.19",
         "Reorder off keeps item order; on yields a permutation, frozen when the import contains a comment or binds a name twice, canonical under permutation of the source items, and nothing outside import statements differs between the two outputs.",
         "Sort key not prescribed; comment = any comment node below the ModuleImport."),
}
checks=[]
for pid,(cat,tech,ref,text,note) in sorted(P.items()):
    checks.append({
      "property_id": pid,
      "quick_cmd": f"./run.sh {pid} quick",
      "thorough_cmd": f"./run.sh {pid} thorough",
      "evidence_file": f"/verif/evidence/{pid}.json",
      "replay_cmd_template": "./run.sh --replay {path}",
      "engine": "tyv",
      "level_claimed": {"category": cat, "text": text, "design_ref": f"DESIGN.md §{ref}"},
      "level_note": note,
      "technique": "runtime monitoring: " + tech,
    })
m={
 "version": 1,
 "setup_cmd": "./setup.sh",
 "hooks": {
   "guard": "typstyle_verif (rustc --cfg)",
   "enable": "harness/.cargo/config.toml sets rustflags = [\"--cfg\", \"typstyle_verif\"]; every check rebuilds typstyle-core from /repo/crates/typstyle-core by path dependency",
   "baseline_off_cmd": "cd /repo && cargo nextest run --workspace --no-fail-fast --offline",
   "source_commits": hook_commits,
   "add_only": True
 },
 "engines": [{"name":"tyv","path":"/verif/harness","serves_properties":sorted(P.keys()),"kind_free_text":"Rust harness: closed input pools (corpus, mutators, generators), oracles over observed executions, worker sub-processes, CLI model + strace, known-finding classifiers, evidence writer"}],
 "checks": checks,
 "not_applicable": [],
 "notes": "Exit codes of every command: 0 held (possibly after KNOWN-FINDING lines), 1 VIOLATION line + replay file, 2 INCONCLUSIVE (build failure, too few observations). Known findings: /verif/known_findings.json. Genuine defects repaired in /repo as separate 'fix:' commits are listed there with status 'fixed'."
}
json.dump(m,open('/verif/MANIFEST.json','w'),indent=1,ensure_ascii=False)
print("ok",len(checks))
