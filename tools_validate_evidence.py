#!/usr/bin/env python3-vt
import json, sys, glob, jsonschema
schema = json.load(open('/root/.vp/EVIDENCE.schema.json'))
bad = 0
for f in sorted(glob.glob('/verif/evidence/C*.json')):
    try:
        d = json.load(open(f))
        jsonschema.validate(d, schema)
        c = d['coverage']
        print(f"{d['property_id']} {d['tier']:8} eval={c['evaluations']:>9} nontrivial={c['distinct_nontrivial']:>7} samples={len(c['samples'])} viol={d.get('violations')} wall={d['wall_s']:.1f}s")
    except Exception as e:
        bad += 1
        print('INVALID', f, str(e)[:200])
sys.exit(1 if bad else 0)
