#!/bin/bash
# Builds the harness (and, with "cli", /repo's CLI) from /repo's CURRENT working tree.
# cargo decides freshness of the path dependency by file times; a patch that is applied and reverted between two builds within
# the same second as the previous build's bookkeeping can leave a stale typstyle-core behind (seen once: a seeded build survived
# the revert). So the content of /repo's sources is hashed, and whenever it differs from what the last build saw, the crates of
# the code under test are removed from the target directory first.
# Usage: ./build.sh harness|cli   -> exit 0 ok, 1 build failed (log in target/build-*.log)
set -u
cd "$(dirname "$0")"
export CARGO_NET_OFFLINE=true
mkdir -p target target-cli
src_hash() {
  (cd /repo && { find crates -type f \( -name '*.rs' -o -name 'Cargo.toml' \) -print0 | sort -z | xargs -0 sha256sum; sha256sum Cargo.toml Cargo.lock 2>/dev/null; }) | sha256sum | cut -c1-32
}
h=$(src_hash)
case "${1:-harness}" in
  harness)
    if [ "$(cat target/.repo-src-hash 2>/dev/null)" != "$h" ]; then
      (cd harness && cargo clean --release --offline -p typstyle-core >/dev/null 2>&1)
      (cd harness && cargo clean --profile checked --offline -p typstyle-core >/dev/null 2>&1)
      rm -f target/.repo-src-hash
    fi
    if (cd harness && cargo build --release --offline >../target/build-harness.log 2>&1); then
      # the C05 slice with integer-overflow checks and debug assertions on (no typst world: ~25 s the first time)
      (cd harness && cargo build --profile checked --no-default-features --offline >../target/build-harness-checked.log 2>&1) || rm -f target/checked/tyv
      echo "$h" > target/.repo-src-hash; exit 0
    fi
    exit 1 ;;
  cli)
    if [ "$(cat target-cli/.repo-src-hash 2>/dev/null)" != "$h" ]; then
      cargo clean --release --offline --manifest-path /repo/Cargo.toml --target-dir /verif/target-cli -p typstyle-core -p typstyle >/dev/null 2>&1
      rm -f target-cli/.repo-src-hash
    fi
    if cargo build --release --offline --manifest-path /repo/Cargo.toml -p typstyle --target-dir /verif/target-cli >target/build-cli.log 2>&1; then echo "$h" > target-cli/.repo-src-hash; exit 0; fi
    exit 1 ;;
esac
