#!/bin/bash
# ./run.sh <Cxx> <quick|thorough|full>     run one property check (rebuilds from /repo's working tree first)
# ./run.sh --replay <path>                 re-execute one recorded violation
# Exit codes: 0 held, 1 VIOLATION, 2 INCONCLUSIVE (build failure, too few observations, harness error).
set -u
cd "$(dirname "$0")"
export CARGO_NET_OFFLINE=true
export VERIF_DIR=/verif
mkdir -p evidence replays

build_harness() {
  if ! ./build.sh harness; then
    echo "INCONCLUSIVE property=$1 reason=build-failed (harness or /repo/crates/typstyle-core does not compile)"
    grep -E '^error' -A6 target/build-harness.log | head -30
    exit 2
  fi
}
build_cli() {
  if ! ./build.sh cli; then
    echo "INCONCLUSIVE property=$1 reason=build-failed (/repo's CLI does not compile)"
    grep -E '^error' -A6 target/build-cli.log | head -30
    exit 2
  fi
}

mkdir -p target
if [ "${1:-}" = "--replay" ]; then
  build_harness replay
  build_cli replay
  exec target/release/tyv replay "$2"
fi

PROP="${1:?property id}"
TIER="${2:-quick}"
build_harness "$PROP"
case "$PROP" in
  C11|C14|C15|C16|C17) build_cli "$PROP" ;;
esac

# sanitizer tiers (thorough only): their reports are handed to the check, which turns them into violations/evidence
unset TYV_SANITIZER_REPORT
if [ "$TIER" != "quick" ]; then
  case "$PROP" in
    C05|C17)
      ./sanitizers.sh "$PROP" > target/sanitizers-$PROP.log 2>&1 || true
      if [ -f target/sanitizer-report-$PROP.json ]; then export TYV_SANITIZER_REPORT=/verif/target/sanitizer-report-$PROP.json; fi
      ;;
  esac
fi
exec target/release/tyv check "$PROP" "$TIER"
