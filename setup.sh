#!/bin/bash
# setup_cmd: build the framework offline from files on disk only.
set -eu
cd "$(dirname "$0")"
export CARGO_NET_OFFLINE=true
mkdir -p evidence replays target target-cli
cp -f /repo/Cargo.lock harness/Cargo.lock.repo 2>/dev/null || true
echo "[setup] building harness (tyv) against /repo/crates/typstyle-core with --cfg typstyle_verif"
(cd harness && cargo build --release --offline 2>&1 | tail -3)
echo "[setup] building /repo's CLI into /verif/target-cli"
cargo build --release --offline --manifest-path /repo/Cargo.toml -p typstyle --target-dir /verif/target-cli 2>&1 | tail -2
test -x target/release/tyv
test -x target-cli/release/typstyle
echo "[setup] ok"
