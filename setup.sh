#!/bin/bash
# setup_cmd: build the framework offline from files on disk only.
set -eu
cd "$(dirname "$0")"
export CARGO_NET_OFFLINE=true
mkdir -p evidence replays target target-cli
cp -f /repo/Cargo.lock harness/Cargo.lock.repo 2>/dev/null || true
echo "[setup] building harness (tyv) against /repo/crates/typstyle-core with --cfg typstyle_verif"
./build.sh harness; tail -3 target/build-harness.log
echo "[setup] building /repo's CLI into /verif/target-cli"
./build.sh cli; tail -2 target/build-cli.log
test -x target/release/tyv
test -x target-cli/release/typstyle
echo "[setup] ok"
