#!/usr/bin/env python3
"""Construction-time tool: builds /verif/known_findings.json from the triage records in /verif/triage/*.json
(the reduced output of `tyv triage <prop> full`) plus the hand-written list of fixed findings and class findings.
Never run by a check. Usage:  python3 tools_mkfindings.py [--import /tmp]   (--import reduces fresh triage output first)"""
import json, sys, os, glob, subprocess

VERIF = '/verif'
TRI = f'{VERIF}/triage'
os.makedirs(TRI, exist_ok=True)

if len(sys.argv) > 2 and sys.argv[1] in ('--import', '--merge'):
    # --import replaces the record of each property found in the directory; --merge (incremental triage of entries appended to
    # the corpus since the last full sweep, `tools_triage.sh` with FROM=...) adds its keys / leftovers to the existing record
    merge = sys.argv[1] == '--merge'
    for f in glob.glob(os.path.join(sys.argv[2], 'triage_C*.json')):
        try:
            d = json.load(open(f))
        except Exception as e:
            print('skip', f, e)
            continue
        red = {
            'property': d['property'],
            'comment_keys': [{'key': k['key'], 'n': k['n'], 'eg': k['eg'], 'repro': (k.get('repro') if k.get('repro') and len(k['repro'].get('input') or '') <= 400 else None)} for k in d['comment_keys']],
            'repairs': d['repairs'],
            'leftovers': [{'sha': l['sha'], 'origin': l['origin'], 'oracle': l.get('oracle', ''), 'detail': l['detail'][:160],
                           'input': l['input'] if len(l['input']) <= 400 else None, 'cfg': l.get('cfg'), 'extra': l.get('extra')} for l in d['leftovers']],
        }
        out = f"{TRI}/{d['property']}.json"
        if merge and os.path.exists(out):
            old = json.load(open(out))
            have = {k['key'] for k in old['comment_keys']}
            old['comment_keys'] += [k for k in red['comment_keys'] if k['key'] not in have]
            have = {(l['sha'], l.get('oracle', ''), l['detail'][:20]) for l in old['leftovers']}
            old['leftovers'] += [l for l in red['leftovers'] if (l['sha'], l.get('oracle', ''), l['detail'][:20]) not in have]
            red = old
        json.dump(red, open(out, 'w'), indent=0, ensure_ascii=False)
        print('merged' if merge else 'imported', d['property'], len(red['comment_keys']), 'keys', len(red['leftovers']), 'leftovers')

def commit_of(prefix):
    out = subprocess.run(['git', '-C', '/repo', 'log', '--format=%h %s'], capture_output=True, text=True).stdout
    for l in out.splitlines():
        if prefix in l:
            return l.split()[0]
    return ''

def cfg(w=80, t=2, r=False):
    return {'max_width': w, 'tab_spaces': t, 'reorder_import_items': r}

def repro(prop, oracle, inp, c=None, extra=None):
    return {'property': prop, 'oracle': oracle, 'input': inp, 'cfg': c if c is not None else cfg(), 'origin': 'known_findings.json', 'detail': '', 'extra': extra}

def scenario(name):
    return subprocess.run([f'{VERIF}/target/release/tyv', 'cli-scenario', name], capture_output=True, text=True).stdout.strip()

W_INF = 1 << 40
findings = []

# ---------------------------------------------------------------------------------------------------------------
# fixed: each has a 'fix:' commit in /repo; the reproducers run in every check of their property; nothing is suppressed
fixed = [
 ('FX01-math-args-blank-only', ['C05'], 'math call with blank-only parentheses', '`$sin( )$` panicked (func_call.rs slice index starts at 2 but ends at 1)',
  [repro('C05', 'no-panic', '$sin( )$'), repro('C05', 'no-panic', '$f(\n)$ $mat(  )$', cfg(0))]),
 ('FX02-table-columns-capacity', ['C05'], 'do not pre-allocate table rows', '`#table(columns: 9223372036854775807, [a])` panicked with capacity overflow; 1e11 columns allocated terabytes',
  [repro('C05', 'no-panic', '#table(columns: 9223372036854775807, [a])'), repro('C05', 'no-panic', '#grid(columns: 4611686018427387904, [a], [b])', cfg(0))]),
 ('FX03-range-past-end', ['C13'], 'range formatting panicked when', 'format_source_range panicked for any range ending past the text',
  [repro('C13', 'range-format', '#let x = 1', cfg(), {'start': 0, 'end': 13}), repro('C13', 'range-format', 'a #f(1,2) b', cfg(), {'start': 11, 'end': 12})]),
 ('FX04-format-all-dot-root', ['C14', 'C15'], 'format-all skipped everything', '`typstyle format-all .` (also ./, .., hidden roots) formatted nothing and `--check` exited 0',
  [repro('C15', 'written-bytes', scenario('dot-root-inplace'), None), repro('C14', 'exit-status', scenario('dot-root-check'), None), repro('C15', 'written-bytes', scenario('hidden-root-inplace'), None)]),
 ('FX05-in-not-in-chain', ['C01', 'C02'], 'binary chains mixing', '`#(a in b not in c)` became `#(a not in b not in c)`',
  [repro('C01', 'N(parse(x))==N(parse(y))', '#(a in b not in c)'), repro('C01', 'N(parse(x))==N(parse(y))', '#(a not in b in c)', cfg(0)),
   repro('C02', 'compile+render-equal', '#let a = 1\n#let b = (1,)\n#let c = (true,)\n#repr(a in b not in c) #repr(a not in b in c)')]),
 ('FX06-blank-line-in-flat-list', ['C03'], 'a kept blank line inside a list', '`#f(a, b⏎⏎, c)` -> `#f(a, b,  c)` (stray blank, second pass removed it)',
  [repro('C03', 'fmt(fmt(x))==fmt(x)', '#f(a, b\n\n, c)'), repro('C03', 'fmt(fmt(x))==fmt(x)', '#(a, b\n\n\n, c)', cfg(120))]),
 ('FX07-non-lf-newlines', ['C01', 'C04', 'C06'], 'recognise every Typst newline', 'a line comment ended by CR / U+2028 / U+2029 / NEL / VT / FF swallowed the following code',
  [repro('C04', 'output-parses', '#{\n  let x = 1 // c\r  let y = 2\n}'), repro('C06', 'comment-stream', '#let x = 1 // c\u2028#let y = 2'),
   repro('C01', 'N(parse(x))==N(parse(y))', '#f(a, // c\u0085 b)', cfg(0))]),
 ('FX08-import-reorder-comment-in-item', ['C19'], 'import items were reordered although a comment', '`b /* c */ as d, a` was reordered although the import contains a comment',
  [repro('C19', 'import-items', '#import "a": b /* c */ as d, a', cfg(80, 2, True)), repro('C19', 'import-items', '#import "a": z./* c */y, a', cfg(80, 2, True))]),
 ('FX09-line-comment-before-closing-dollar', ['C04'], 'a line comment at the end of an inline equation', '`$x // c⏎$` -> `$x // c$` (unclosed delimiter)',
  [repro('C04', 'output-parses', '$xy// c\n$'), repro('C04', 'output-parses', 'text $a + b // c\n$ more', cfg(0))]),
 ('FX10-line-comment-before-math-args-paren', ['C04'], 'a line comment before the closing parenthesis of math call', '`$sin(x // c⏎)$` -> `$sin(x // c)$`',
  [repro('C04', 'output-parses', '$sin(x // c\n)$'), repro('C04', 'output-parses', '$mat(1, 2; 3, 4 // c\n)$', cfg(120))]),
 ('FX11-closure-param-parens-comment', ['C04'], 'the parentheses of a single closure parameter', '`(x /* c */) => x` -> `x /* c */, => x`',
  [repro('C04', 'output-parses', '#let f = (x/* c9\n * y9\n */) => { x }'), repro('C04', 'output-parses', '#((x/* c */) => x)', cfg(0))]),
 ('FX12-table-columns-paren', ['C03'], 'was not recognised as a column count', '`columns: ((1fr, 2fr))` reflowed only on the second run',
  [repro('C03', 'fmt(fmt(x))==fmt(x)', '#table(columns: ((1fr, 2fr)), [a], [b], [c], [d])', cfg(49)), repro('C03', 'fmt(fmt(x))==fmt(x)', '#table(columns: (2), [a], [b], [c], [d])', cfg(30))]),
 ('FX13-field-access-comment-dropped', ['C06'], 'comments inside a field access outside code mode', '`#show heading/* c */.where(level: 1): it => it` lost the comment',
  [repro('C06', 'comment-stream', '#show heading/* c */.where(level: 1): it => it'), repro('C06', 'comment-stream', '#set a./* c5 */b(c)', cfg(0))]),
 ('FX14-import-reorder-comment-before-items', ['C19'], 'although a comment sat in the import before the items', '`#import calc: /* c */ x2.x1, Gamma._u as zeta` was reordered although the import contains a comment',
  [repro('C19', 'import-items', '#import calc: /* c */ x2.x1, Gamma._u as zeta', cfg(80, 2, True)), repro('C19', 'import-items', '#import "a": /* c */ b, a', cfg(0, 2, True))]),
 ('FX15-import-line-comment-before-items', ['C04'], 'a line comment between the colon and the items of an import', '`#(import "a.typ": // c⏎ (x, y))` -> the comment swallowed the items',
  [repro('C04', 'output-parses', '#(import "a.typ": // c\n  (x, y))'), repro('C04', 'output-parses', '#{\n  import "a.typ": // c\n  (x, y)\n}', cfg(0))]),
 ('FX16-range-math-hash-mode', ['C13'], 'range formatting treated code embedded in math', 'range 2..4 of `$#f(1, 2)[x]$` returned `f(1, 2 [x])` (math argument layout for a code call): syntax error after splicing',
  [repro('C13', 'range-format', '$#f(1, 2)[x]$', cfg(), {'start': 2, 'end': 4}), repro('C13', 'range-format', '$x^#text(red)[1]$', cfg(0), {'start': 4, 'end': 9})]),
 ('FX17-range-callee-parenthesized', ['C13'], 'range formatting of the callee of a call', 'range 1..8 of `#a.b(1).c(2)` at a narrow width returned `(a.b(1)⏎.c)`: `(a.b(1).c)(2)` is a field access + call, not a method call',
  [repro('C13', 'range-format', '#a.b(1).c(2)', cfg(0), {'start': 1, 'end': 8}), repro('C13', 'range-format', '#f(a.b(1).c(2))', cfg(0), {'start': 3, 'end': 10})]),
 ('FX18-range-nested-markup', ['C13'], 'range formatting of the body of a content block', 'an empty range inside `#[ a ]` returned the body without its edge blanks (`#[a]`); the body of a list item lost the nesting of its children',
  [repro('C13', 'range-format', '#[ a ]', cfg(), {'start': 2, 'end': 2}), repro('C13', 'range-format', '* a *', cfg(), {'start': 1, 'end': 1}), repro('C13', 'range-format', '- a\n  - b\n    - c', cfg(), {'start': 1, 'end': 7})]),
 ('FX19-range-indent-from-node', ['C13'], 'range formatting took the indentation from the start of the requested range', 'range 10..10 of `- a⏎  - b⏎    - c` re-indented the item `- b…` by 0 instead of 2; on the first line (`  - a⏎    - b⏎  - c`) the indentation was ignored',
  [repro('C13', 'range-format', '- a\n  - b\n    - c', cfg(), {'start': 10, 'end': 10}), repro('C13', 'range-format', '  - a\n    - b\n  - c', cfg(), {'start': 0, 'end': 3})]),
 ('FX20-range-blank-unit', ['C13'], 'range formatting of a blank line inside a list item', 'an empty range on the blank line of `- a⏎⏎  b` replaced the paragraph break (which ends with the indentation of `b`) by two bare newlines: `b` left the item',
  [repro('C13', 'range-format', '- a\n\n  b', cfg(), {'start': 4, 'end': 4}), repro('C13', 'range-format', '- a\n\n  - b', cfg(), {'start': 4, 'end': 4})]),
 ('FX21-range-indent-newlines', ['C13'], 'range formatting inferred the indentation only after LF', '`- a\r  / T: d\r    + x` (CR line ends), range 3..7: indentation 0 instead of 2',
  [repro('C13', 'range-format', '- a\r  / T: d\r    + x', cfg(), {'start': 3, 'end': 7}), repro('C13', 'range-format', '- a\u2029  - b\n    - c', cfg(), {'start': 3, 'end': 9})]),
 ('FX22-range-breaks-in-equation', ['C13'], 'range formatting inside an equation could break code embedded', 'range 2..6 of `$#f.f.gg(x)$` at width 0 returned a dot chain broken over lines, which ends the embedded expression',
  [repro('C13', 'range-format', '$#f.f.gg(x)$', cfg(0), {'start': 2, 'end': 6})]),
 ('FX23-range-item-marker-column', ['C13'], 'range formatting of a list item that follows another marker', 'range 2..3 of `- - b⏎    c` returned the inner item with its continuation line indented by 2 instead of 4 (the marker column): `c` left the item',
  [repro('C13', 'range-format', '- - b\n    c', cfg(), {'start': 2, 'end': 3}), repro('C13', 'range-format', '+ - a\n    b\n  - c', cfg(), {'start': 2, 'end': 5})]),
 ('FX24-directive-across-paragraph-break', ['C07'], 'a blank line in markup between an', '`// @typstyle off⏎⏎#f( 1,2 )` at markup level was reformatted: the paragraph break consumed the directive',
  [repro('C07', 'directive-target-verbatim', '// @typstyle off\n\n#f( 1,2 )\n'), repro('C07', 'directive-target-verbatim', 'text /* @typstyle off */\n\n#g( 1,2 , h(3 ,4) ) more', cfg(0))]),
 ('FX25-set-rule-content-args', ['C01', 'C06'], 'a set rule lost the content-block arguments', '`#set text(red)[a]` -> `#set text(red)` (argument dropped), `#set text[a]` -> `#set text([a])`',
  [repro('C01', 'N(parse(x))==N(parse(y))', '#set text(red)[a]'), repro('C01', 'N(parse(x))==N(parse(y))', '#set text[a]', cfg(0)), repro('C06', 'comment-stream', '#set text(red)[a /* c */ b]')]),
]
for fid, props, commit_key, what, repros in fixed:
    assert commit_of(commit_key), commit_key
    findings.append({'id': fid, 'status': 'fixed', 'properties': props, 'commit': commit_of(commit_key), 'what': what, 'classifier': '', 'params': None, 'repros': repros})

# ---------------------------------------------------------------------------------------------------------------
# open class findings (classifier = trigger + counterfactual input repair)
ALLTREE = ['C01', 'C02', 'C03', 'C04', 'C06', 'C07', 'C08', 'C09', 'C10', 'C12', 'C13', 'C19']
classes = [
 ('F06-paren-literal-then-text', ALLTREE, 'repair', {'repair': 'paren_literal_then_text'},
  'parentheses are removed around a literal that is directly followed by text or a dot: `#(1)em` -> `#1em`, `#(1)x` -> `#1x` (syntax error), `#((1.).a)` -> `#(1..a)`',
  [repro('C04', 'output-parses', '#(1)x', cfg(0)), repro('C01', 'N(parse(x))==N(parse(y))', '#(1)em', cfg(0))]),
 ('F08-eol-blanks-inside-literals', ['C01', 'C02', 'C03', 'C08', 'C10', 'C13'], 'repair', {'repair': 'eol_blank_in_literal'},
  'blanks before a line break inside a multi-line string / raw literal are stripped by the post-pass (pinned by upstream snapshots of 5 fixtures, so not repairable without editing tests)',
  [repro('C10', 'literal-stream', '#"a  \n  b"', cfg(0)), repro('C10', 'literal-stream', '```typ\n#link() \n```', cfg(0))]),
 ('F08b-cr-inside-literals', ['C01', 'C02', 'C10', 'C03', 'C13', 'C09'], 'repair', {'repair': 'cr_in_literal'},
  'CR / CRLF inside a multi-line string, raw literal or block comment is rewritten to LF by the line-based post-pass',
  [repro('C10', 'literal-stream', '#"a\r\nb"', cfg(0))]),
 ('F09-non-ascii-blank-at-line-end', ['C01', 'C02', 'C03', 'C08', 'C10', 'C13'], 'repair', {'repair': 'nonascii_eol_blank'},
  'a line ending in NBSP / U+3000 (text for Typst) loses it: trim_end is Unicode-wide. C11 demands the opposite for the same input, so exactly one of C08/C11 can hold there; the tree satisfies C11',
  [repro('C08', 'prose-lines', 'text　', cfg(0))]),
 ('F15-comment-only-content-block', ['C01', 'C02', 'C03', 'C08', 'C13'], 'repair', {'repair': 'comment_only_content'},
  'a content block holding only a comment gains blanks: `x[/* c */]` -> `x[ /* c */ ]` (empty content becomes a space)',
  [repro('C01', 'N(parse(x))==N(parse(y))', '#x[/* c */]', cfg(0))]),
 ('F16-forced-break-in-break-suppressed-context', ['C03', 'C08'], 'repair', {'repair': 'explode_multi_stmt_blocks'},
  'a code block with several statements written on one line inside a prose line or math (`text #f({ let x = 1; x }) more`) must be broken by the first pass; the second pass then sees a multi-line node, lifts the break suppression and lays the surrounding call out differently (non-convergence)',
  [repro('C03', 'fmt(fmt(x))==fmt(x)', 'text #f(args: { let self = 6pt; 1pt }) more', cfg(0))]),
 ('F13-stack-overflow-deep-nesting', ['C05'], 'stack_overflow_depth', {'min_depth': 4096},
  'nesting of depth >= 4096 that the parser still accepts overflows the 8 MiB main-thread stack in the recursive conversion',
  []),
 ('F14-format-all-skips-unreadable-silently', ['C14', 'C15'], 'repair', {'repair': 'cli_f14'},
  'format-all skips unreadable / non-UTF-8 *.typ files silently and exits 0, although the property counts an I/O error as a failure (deliberate upstream choice)',
  [repro('C14', 'exit-status', scenario('f14-unreadable'), None)]),
]
for fid, props, cl, params, what, repros in classes:
    findings.append({'id': fid, 'status': 'open', 'properties': props, 'what': what, 'classifier': cl, 'params': params, 'repros': repros})

# ---------------------------------------------------------------------------------------------------------------
# per-property comment-key and exact-input findings from the full-tier triage records
WHAT_KEYS = {
 'C01': 'a comment at one of the listed syntactic positions changes the tree (e.g. line comment inside a math row moves a separator, block comment after `\\` before `$`)',
 'C03': 'a comment at one of the listed syntactic positions is attached/detached or re-aligned differently on the second pass (non-convergence)',
 'C04': 'a comment at one of the listed syntactic positions yields output with syntax errors',
 'C06': 'a comment at one of the listed syntactic positions is lost, or moves across a word',
 'C08': 'a comment at one of the listed positions changes the line structure of the surrounding markup',
 'C09': 'a comment at one of the listed positions changes whitespace between math atoms',
 'C10': 'a comment at one of the listed positions changes a literal',
 'C12': 'a comment at one of the listed positions is indented off the unit grid (e.g. line comment directly below a term marker, pinned by a snapshot)',
 'C07': 'a second comment next to the directive changes what the directive protects',
 'C19': 'a comment at one of the listed positions inside an import changes the item list',
 'C13': 'range formatting a node with a comment at one of the listed positions yields a splice that is not equivalent',
 'C02': 'a comment at one of the listed positions changes the compiled document',
}
for f in sorted(glob.glob(f'{TRI}/C*.json')):
    d = json.load(open(f))
    p = d['property']
    keys = sorted({k['key'] for k in d['comment_keys']})
    if keys:
        eg = max(d['comment_keys'], key=lambda k: k['n'])
        findings.append({'id': f'K-{p}-comment-positions', 'status': 'open', 'properties': [p],
                         'what': f"{WHAT_KEYS.get(p, 'comment-position dependent defect')}; {len(keys)} position keys (shape|parent|grandparent|prev|next), e.g. {eg['key']} as in {eg['eg'][:70]!r}",
                         'classifier': 'comment_key', 'params': {'keys': keys},
                         'repros': [k['repro'] for k in sorted(d['comment_keys'], key=lambda k: -k['n']) if k.get('repro')][:3]})
    def kind(l):
        w = ''.join(ch for ch in (l['detail'].split() or [''])[0] if ch.isascii() and ch.isalpha())
        return f"{l.get('oracle','')}/{w}"
    shas = sorted({f"{l['sha']}:{kind(l)}" for l in d['leftovers']})
    if shas:
        egs = [l for l in d['leftovers'] if l.get('input')][:3]
        findings.append({'id': f'X-{p}-listed-inputs', 'status': 'open', 'properties': [p],
                         'what': f"{len(shas)} specific inputs of the closed pools (identified by SHA-256 prefix of the input text plus the kind of failure) that violate {p} for causes not covered by a class finding, e.g. " + '; '.join(repr(e['input'][:60]) + ' — ' + e['detail'][:80] for e in egs),
                         'classifier': 'input_list', 'params': {'inputs': shas},
                         'repros': [{'property': p, 'oracle': e.get('oracle', ''), 'input': e['input'], 'cfg': e.get('cfg'), 'extra': e.get('extra'), 'origin': e['origin'], 'detail': ''} for e in egs]})

json.dump({'findings': findings}, open(f'{VERIF}/known_findings.json', 'w'), indent=1, ensure_ascii=False)
print('wrote', len(findings), 'findings:', sum(1 for f in findings if f['status'] == 'fixed'), 'fixed,', sum(1 for f in findings if f['status'] == 'open'), 'open')
