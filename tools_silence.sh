#!/bin/bash
# Runs every registered quick (or $TIER) command at the given VERIF_SEED values on the current tree and reports exit codes.
# Usage: ./tools_silence.sh "0 1 7 42" [quick|thorough]
cd /verif
SEEDS=${1:-"0 1 2"}
TIER=${2:-quick}
fail=0
for seed in $SEEDS; do
  for p in C01 C02 C03 C04 C05 C06 C07 C08 C09 C10 C11 C12 C13 C14 C15 C16 C17 C18 C19; do
    out=$(VERIF_SEED=$seed ./run.sh $p $TIER 2>&1); code=$?
    nv=$(echo "$out" | grep -a -c '^VIOLATION')
    nk=$(echo "$out" | grep -a -c '^KNOWN-FINDING')
    sum=$(echo "$out" | grep -a '^SUMMARY' | sed 's/.*evaluations=\([0-9]*\).*wall_s=\([0-9.]*\)/eval=\1 wall=\2s/')
    echo "seed=$seed $p exit=$code violations=$nv known_lines=$nk $sum"
    if [ $code -ne 0 ]; then fail=1; echo "$out" | grep -a -E '^VIOLATION|^INCONCLUSIVE' -A1 | head -6 | cut -c1-300; fi
  done
done
exit $fail
