#!/bin/bash
# Sanitizer tiers of the thorough commands (DESIGN.md §2, §6.5, §6.17).
#   ./sanitizers.sh C17   ThreadSanitizer build of the concurrent stress workload + Miri (many seeds)
#   ./sanitizers.sh C05   AddressSanitizer replay of the adversarial/hostile sets + valgrind memcheck on a fifth of them + Miri on a small adversarial set
# Writes target/sanitizer-report-<prop>.json; never decides a verdict itself.
set -u
cd "$(dirname "$0")"
export CARGO_NET_OFFLINE=true
export VERIF_DIR=/verif
PROP="$1"
OUT=target/sanitizer-report-$PROP.json
TARGET=x86_64-unknown-linux-gnu
mkdir -p target
entries=()

add() { # tool build runs reports observed excerpt
  entries+=("$(python3 - "$@" <<'PY'
import json,sys
tool,build,runs,reports,observed,excerpt=sys.argv[1:7]
print(json.dumps({"tool":tool,"build":build,"runs":int(runs),"reports":int(reports),"observed":observed,"excerpt":excerpt[-1500:]}))
PY
)")
}

run_tsan() {
  local log=target/tsan.log
  if (cd harness && RUSTFLAGS="--cfg typstyle_verif -Zsanitizer=thread" cargo +nightly build --offline --release --no-default-features -Zbuild-std --target $TARGET --target-dir /verif/target-tsan) > target/tsan-build.log 2>&1; then
    local bin=target-tsan/$TARGET/release/tyv
    : > $log
    local runs=0 reports=0 obs=""
    for cfg in "2 6 8" "4 6 8" "8 4 8" "16 3 8" "32 2 8" "4 10 4" "2 3 300" "4 3 300" "8 2 300" "16 2 300" "32 1 300" "64 1 120"; do
      set -- $cfg
      TSAN_OPTIONS="halt_on_error=0 exitcode=66 report_signal_unsafe=0" $bin stress $1 $2 $3 >> $log 2>&1
      runs=$((runs+1))
    done
    reports=$(grep -c "WARNING: ThreadSanitizer" $log || true)
    obs=$(grep "^STRESS" $log | tr '\n' ';')
    add tsan ok $runs $reports "$obs" "$(grep -A12 'WARNING: ThreadSanitizer' $log | head -40)"
  else
    add tsan build-failed 0 0 "" "$(tail -5 target/tsan-build.log)"
  fi
}

run_miri() { # args: subcommand...
  local name=$1; shift
  local log=target/miri-$name.log
  if (cd harness && MIRIFLAGS="-Zmiri-disable-isolation -Zmiri-tree-borrows -Zmiri-many-seeds=0..${MIRI_SEEDS:-16}" RUSTFLAGS="--cfg typstyle_verif" cargo +nightly miri run --offline --no-default-features --target-dir /verif/target-miri -- "$@") > $log 2>&1; then
    add miri-$name ok ${MIRI_SEEDS:-16} 0 "$(grep -E '^(STRESS|SAN-TOTAL)' $log | sort | uniq -c | tr '\n' ';')" ""
  else
    local rep=$(grep -c -E "Undefined Behavior|Data race|error: unsupported" $log || true)
    if [ "$rep" = "0" ]; then
      add miri-$name build-or-harness-failed 0 0 "" "$(tail -8 $log)"
    else
      add miri-$name ok ${MIRI_SEEDS:-16} $rep "" "$(grep -B2 -A14 -E 'Undefined Behavior|Data race' $log | head -60)"
    fi
  fi
}

run_miri_total() { # 8 shards of the mini set in parallel (one miri process is single-threaded)
  local shards=8 ok=1
  # build once (shard 8/8 is empty), then run the shards side by side
  (cd harness && MIRIFLAGS="-Zmiri-disable-isolation -Zmiri-tree-borrows" RUSTFLAGS="--cfg typstyle_verif" cargo +nightly miri run --offline --no-default-features --target-dir /verif/target-miri -- san-total 999 1000 mini) > target/miri-total-build.log 2>&1 || ok=0
  if [ $ok = 0 ]; then
    add miri-total build-or-harness-failed 0 0 "" "$(tail -8 target/miri-total-build.log)"
    return
  fi
  for k in $(seq 0 $((shards-1))); do
    (cd harness && MIRIFLAGS="-Zmiri-disable-isolation -Zmiri-tree-borrows" RUSTFLAGS="--cfg typstyle_verif" cargo +nightly miri run --offline --no-default-features --target-dir /verif/target-miri -- san-total $k $shards mini) > target/miri-total-$k.log 2>&1 &
  done
  wait
  cat target/miri-total-?.log > target/miri-total.log
  local rep=$(grep -c -E "Undefined Behavior|Data race|error: unsupported" target/miri-total.log || true)
  local done_=$(grep -c '^SAN-TOTAL' target/miri-total.log || true)
  if [ "$rep" = "0" ] && [ "$done_" != "$shards" ]; then
    add miri-total build-or-harness-failed 0 0 "" "$(tail -8 target/miri-total.log)"
  else
    add miri-total ok $shards $rep "$(grep -E '^SAN-TOTAL' target/miri-total.log | tr '\n' ';')" "$(grep -B2 -A14 -E 'Undefined Behavior|Data race' target/miri-total.log | head -60)"
  fi
}

run_asan() {
  local log=target/asan.log
  if (cd harness && RUSTFLAGS="--cfg typstyle_verif -Zsanitizer=address -Cforce-frame-pointers=yes" cargo +nightly build --offline --release --no-default-features --target $TARGET --target-dir /verif/target-asan) > target/asan-build.log 2>&1; then
    local bin=target-asan/$TARGET/release/tyv
    : > $log
    local runs=0
    for shard in 0 1 2 3 4 5 6 7; do
      ASAN_OPTIONS="detect_leaks=0 halt_on_error=1 abort_on_error=0 exitcode=67" $bin san-total $shard 8 >> $log 2>&1 &
    done
    wait
    runs=8
    local reports=$(grep -c "ERROR: AddressSanitizer" $log || true)
    add asan ok $runs $reports "$(grep '^SAN-TOTAL' $log | tr '\n' ';')" "$(grep -A14 'ERROR: AddressSanitizer' $log | head -40)"
  else
    add asan build-failed 0 0 "" "$(tail -5 target/asan-build.log)"
  fi
}

run_memcheck() { # valgrind memcheck on the plain release build: uninitialised reads, invalid accesses in what typstyle drives
  local log=target/memcheck.log
  local bin=target/release/tyv
  if [ ! -x $bin ] || ! command -v valgrind >/dev/null; then add memcheck build-failed 0 0 "" "no release binary or no valgrind"; return; fi
  for k in 0 1 2 3 4 5 6 7; do
    valgrind -q --error-exitcode=99 --errors-for-leak-kinds=none --num-callers=20 $bin san-total $k 8 midi > target/memcheck-$k.log 2>&1 &
  done
  wait
  cat target/memcheck-?.log > $log
  local reports=$(grep -c -E "^==[0-9]+== (Invalid|Conditional jump|Use of uninitialised|Syscall param|Mismatched|Source and destination)" $log || true)
  local done_=$(grep -c '^SAN-TOTAL' $log || true)
  if [ "$reports" = "0" ] && [ "$done_" != "8" ]; then
    add memcheck build-or-harness-failed 0 0 "" "$(tail -8 $log)"
  else
    add memcheck ok 8 $reports "$(grep '^SAN-TOTAL' $log | tr '\n' ';')" "$(grep -A14 -E '^==[0-9]+== (Invalid|Conditional jump|Use of uninitialised)' $log | head -40)"
  fi
}

case "$PROP" in
  C17) run_tsan; MIRI_SEEDS=${MIRI_SEEDS:-32} run_miri stress stress 3 1 4 ;;
  C05) run_asan; run_memcheck; run_miri_total ;;
esac

printf '{"tools":[%s]}\n' "$(IFS=,; echo "${entries[*]}")" > $OUT
cat $OUT
