//! C18 — work grows linearly with input size, whatever the nesting.
//!
//! Verdict = hook counter (entries into convert_expr / convert_pattern / convert_markup_impl / convert_math,
//! `--cfg typstyle_verif`) against the number of syntax nodes. Secondary monitors: bytes allocated per call
//! (thread-local counting allocator) and thread CPU time along depth ladders.

use std::alloc::{GlobalAlloc, Layout, System};
use std::cell::Cell;

use serde_json::json;

use crate::engine::{Acc, Case, Violation};
use crate::fmtx::{self, Cfg, FmtOut};
use crate::gen;
use crate::tree;
use crate::util;

pub struct CountingAlloc;

thread_local! {
    static ALLOC_BYTES: Cell<u64> = const { Cell::new(0) };
}

unsafe impl GlobalAlloc for CountingAlloc {
    unsafe fn alloc(&self, layout: Layout) -> *mut u8 {
        let _ = ALLOC_BYTES.try_with(|c| c.set(c.get() + layout.size() as u64));
        System.alloc(layout)
    }
    unsafe fn dealloc(&self, ptr: *mut u8, layout: Layout) {
        System.dealloc(ptr, layout)
    }
    unsafe fn realloc(&self, ptr: *mut u8, layout: Layout, new_size: usize) -> *mut u8 {
        if new_size > layout.size() {
            let _ = ALLOC_BYTES.try_with(|c| c.set(c.get() + (new_size - layout.size()) as u64));
        }
        System.realloc(ptr, layout, new_size)
    }
}

pub fn alloc_bytes() -> u64 {
    ALLOC_BYTES.with(|c| c.get())
}

/// Conversion-count constant: conversions ≤ K·nodes + SLACK  (pre-sweep maximum ratio ≈ 1.0, DESIGN.md §6.18).
pub const K_NUM: u64 = 2;
pub const K_SLACK: u64 = 8;
/// Allocation constant: bytes ≤ KA·(len(x)+len(y)) + SLACK_A.
pub const KA: u64 = 4000;
pub const KA_SLACK: u64 = 64 * 1024;

#[derive(Debug, Clone)]
pub struct Measure {
    pub conversions: [u64; 4],
    pub nodes: u64,
    pub alloc: u64,
    pub cpu_ns: u64,
    pub in_len: usize,
    pub out_len: usize,
}

impl Measure {
    pub fn total(&self) -> u64 {
        self.conversions.iter().sum()
    }
}

pub fn measure(x: &str, cfg: Cfg) -> Option<Measure> {
    let root = tree::parse_ok(x)?;
    let nodes = tree::count_nodes(&root) as u64;
    typstyle_core::verif::reset();
    let a0 = alloc_bytes();
    let t0 = util::thread_cpu_ns();
    let out = fmtx::fmt(x, cfg);
    let cpu = util::thread_cpu_ns() - t0;
    let alloc = alloc_bytes() - a0;
    let conv = typstyle_core::verif::read();
    match out {
        FmtOut::Ok(y) => Some(Measure { conversions: conv, nodes, alloc, cpu_ns: cpu, in_len: x.len(), out_len: y.len() }),
        _ => None,
    }
}

fn viol(x: &str, cfg: Cfg, origin: &str, oracle: &str, detail: String, extra: serde_json::Value) -> Violation {
    Violation { property: "C18".into(), input: x.to_string(), cfg: Some(cfg), origin: origin.into(), oracle: oracle.into(), detail, extra }
}

/// Judge one measurement. Returns violation detail if any.
pub fn judge(m: &Measure) -> Option<(&'static str, String)> {
    judge_conversions(m).or_else(|| judge_alloc(m))
}

/// Primary monitor: node conversions against syntax nodes.
pub fn judge_conversions(m: &Measure) -> Option<(&'static str, String)> {
    let total = m.total();
    if total > K_NUM * m.nodes + K_SLACK {
        return Some((
            "conversions<=K*nodes",
            format!(
                "{} node conversions (expr {}, pattern {}, markup {}, math {}) for {} syntax nodes: ratio {:.2} > K = {}",
                total,
                m.conversions[0],
                m.conversions[1],
                m.conversions[2],
                m.conversions[3],
                m.nodes,
                total as f64 / m.nodes.max(1) as f64,
                K_NUM
            ),
        ));
    }
    None
}

/// Secondary monitor for corpus and flat-family items (shallow nesting): bytes requested from the allocator during the call,
/// against input + output size. Not used along depth ladders: cumulative allocation is not peak memory (see run_ladder).
pub fn judge_alloc(m: &Measure) -> Option<(&'static str, String)> {
    let budget = KA * (m.in_len + m.out_len) as u64 + KA_SLACK;
    if m.alloc > budget {
        return Some((
            "alloc<=K'*(in+out)",
            format!("{} bytes allocated for {} bytes in / {} bytes out (budget {})", m.alloc, m.in_len, m.out_len, budget),
        ));
    }
    None
}

pub fn run_case(case: &Case, cfgs: &[Cfg], acc: &mut Acc) {
    let xh = util::hash64(&case.text);
    for &cfg in cfgs {
        let Some(m) = measure(&case.text, cfg) else {
            acc.inconclusive("not-formattable");
            return;
        };
        acc.evaluations += 1;
        acc.distinct_inputs.insert(xh);
        acc.count("node_conversions_observed", m.total());
        acc.count("syntax_nodes_observed", m.nodes);
        acc.max("max_ratio_x1000", m.total() * 1000 / m.nodes.max(1));
        acc.max("max_alloc_per_io_byte", m.alloc / (m.in_len + m.out_len).max(1) as u64);
        acc.max("max_alloc_permille_of_budget", m.alloc * 1000 / (KA * (m.in_len + m.out_len) as u64 + KA_SLACK));
        match judge(&m) {
            None => {
                acc.held += 1;
                if m.nodes >= 20 {
                    acc.nontrivial.insert(xh);
                    if acc.samples.len() < 3 && case.text.len() < 160 {
                        acc.sample(json!({"input": case.text, "cfg": cfg.json(), "origin": case.origin, "syntax_nodes": m.nodes, "conversions[expr,pattern,markup,math]": m.conversions, "bytes_allocated": m.alloc}));
                    }
                }
            }
            Some((oracle, detail)) => {
                acc.violations.push(viol(&case.text, cfg, &case.origin, oracle, detail, serde_json::Value::Null));
            }
        }
    }
}

pub const LADDER_DEPTHS: [usize; 18] = [1, 2, 3, 4, 5, 6, 7, 8, 10, 12, 16, 24, 32, 48, 64, 96, 128, 256];

/// Walk one ladder (family, or mixed nesting index >= 1000); stops at its first violation.
pub fn run_ladder(family: usize, widths: &[usize], max_depth: usize, acc: &mut Acc) {
    for &w in widths {
        let cfg = Cfg::new(w, 2, false);
        let mut prev_cpu: Vec<u64> = vec![];
        let mut prev_alloc: Vec<(usize, u64)> = vec![];
        for &d in LADDER_DEPTHS.iter().filter(|&&d| d <= max_depth) {
            let text = if family >= 1000 { gen::nest_mixed(family as u64, d) } else { gen::nest_pure(family, d) };
            let Some(m) = measure(&text, cfg) else {
                acc.inconclusive("ladder-item-not-formattable");
                break;
            };
            acc.evaluations += 1;
            acc.count("ladder_points", 1);
            acc.count("node_conversions_observed", m.total());
            acc.count("syntax_nodes_observed", m.nodes);
            acc.max("max_ratio_x1000", m.total() * 1000 / m.nodes.max(1));
            acc.max("max_ladder_depth", d as u64);
            acc.max("max_cpu_us_ladder_point", m.cpu_ns / 1000);
            let extra = json!({"family": family, "depth": d});
            // Allocation along a ladder is judged by growth, not by an absolute linear budget: the statement tolerates
            // quadratic time and memory, and the bytes *requested* over a call over-count peak memory (nested closures
            // with named-parameter defaults request ~d^3 bytes while time and peak RSS grow ~d^2). Exponential growth
            // multiplies the requested bytes per step far beyond the cube of the depth ratio.
            if let Some(&(pd, pa)) = prev_alloc.last() {
                let ratio = d as f64 / pd as f64;
                let bound = 1.5 * ratio.powi(3) * pa as f64 + 262_144.0;
                if m.alloc as f64 > bound {
                    let short = if family >= 1000 { gen::nest_mixed(family as u64, d.min(12)) } else { gen::nest_pure(family, d.min(12)) };
                    acc.violations.push(viol(
                        &short,
                        cfg,
                        &format!("G-NEST family {} depth {}", family, d),
                        "alloc-growth",
                        format!("bytes allocated grew from {} at depth {} to {} at depth {}: more than 1.5 x (depth ratio)^3", pa, pd, m.alloc, d),
                        extra,
                    ));
                    return;
                }
            }
            prev_alloc.push((d, m.alloc));
            acc.max("max_alloc_growth_per_step_x1000", prev_alloc.len().checked_sub(2).map(|i| m.alloc * 1000 / prev_alloc[i].1.max(1)).unwrap_or(0));
            if let Some((oracle, detail)) = judge_conversions(&m) {
                let short = if family >= 1000 { gen::nest_mixed(family as u64, d.min(12)) } else { gen::nest_pure(family, d.min(12)) };
                acc.violations.push(viol(&short, cfg, &format!("G-NEST family {} depth {}", family, d), oracle, format!("depth {}: {}", d, detail), extra));
                return;
            }
            // CPU growth: >= 1.8x per step over five consecutive steps above 20 ms, confirmed on a re-run
            prev_cpu.push(m.cpu_ns);
            let n = prev_cpu.len();
            if n >= 6 && prev_cpu[n - 6..].iter().all(|&c| c > 20_000_000) {
                let growing = (n - 5..n).all(|i| prev_cpu[i] as f64 >= 1.8 * prev_cpu[i - 1] as f64);
                if growing {
                    let again = measure(&text, cfg).map(|m| m.cpu_ns).unwrap_or(0);
                    if again as f64 >= 1.8 * prev_cpu[n - 2] as f64 {
                        let short = if family >= 1000 { gen::nest_mixed(family as u64, d.min(12)) } else { gen::nest_pure(family, d.min(12)) };
                        acc.violations.push(viol(
                            &short,
                            cfg,
                            &format!("G-NEST family {} depth {}", family, d),
                            "cpu-growth",
                            format!("CPU time grew ≥1.8× per ladder step over five steps: {:?} µs", prev_cpu[n - 6..].iter().map(|c| c / 1000).collect::<Vec<_>>()),
                            extra,
                        ));
                        return;
                    } else {
                        acc.inconclusive("cpu-growth-not-confirmed");
                    }
                }
            }
            acc.held += 1;
            acc.nontrivial.insert(util::hash64_parts(&["ladder", &family.to_string(), &d.to_string()]));
        }
    }
}

pub fn violated(input: &str, cfg: Cfg, extra: &serde_json::Value) -> Option<bool> {
    let text = if let (Some(f), Some(n)) = (extra["wide_family"].as_u64(), extra["size"].as_u64()) {
        gen::wide(f as usize, n as usize)
    } else if let (Some(f), Some(d)) = (extra["family"].as_u64(), extra["depth"].as_u64()) {
        if f >= 1000 {
            gen::nest_mixed(f, d as usize)
        } else {
            gen::nest_pure(f as usize, d as usize)
        }
    } else {
        input.to_string()
    };
    let m = measure(&text, cfg)?;
    Some(judge(&m).is_some())
}

pub const WIDE_SIZES: [usize; 11] = [1, 2, 4, 8, 16, 32, 64, 128, 256, 512, 1024];

/// Flat families: the number of conversions per syntax node must stay bounded as the size grows.
pub fn run_wide(family: usize, widths: &[usize], acc: &mut Acc) {
    for &w in widths {
        let cfg = Cfg::new(w, 2, false);
        for &n in WIDE_SIZES.iter() {
            let text = gen::wide(family, n);
            let Some(m) = measure(&text, cfg) else {
                acc.inconclusive("wide-item-not-formattable");
                break;
            };
            acc.evaluations += 1;
            acc.count("wide_family_points", 1);
            acc.count("node_conversions_observed", m.total());
            acc.count("syntax_nodes_observed", m.nodes);
            acc.max("max_ratio_x1000", m.total() * 1000 / m.nodes.max(1));
            acc.max("max_wide_size", n as u64);
            if let Some((oracle, detail)) = judge(&m) {
                let short = gen::wide(family, n.min(6));
                acc.violations.push(viol(&short, cfg, &format!("G-WIDE family {} size {}", family, n), oracle, format!("size {}: {}", n, detail), json!({"wide_family": family, "size": n})));
                return;
            }
            acc.held += 1;
            acc.nontrivial.insert(util::hash64_parts(&["wide", &family.to_string(), &n.to_string()]));
        }
    }
}
