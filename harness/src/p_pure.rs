//! C17 — formatting is a pure, deterministic function of text and configuration.

use std::io::Write;
use std::process::{Command, Stdio};
use std::sync::atomic::{AtomicU64, Ordering};
use std::sync::{Arc, Barrier};

use serde_json::json;
use typst_syntax::{Source, SyntaxKind as K};
use typstyle_core::Typstyle;

use crate::engine::{Acc, Violation};
use crate::fmtx::{self, Cfg, FmtOut};
use crate::tree;
use crate::util::{self, Rng};

#[derive(Clone, Debug)]
pub struct Item {
    pub text: String,
    pub cfg: Cfg,
    pub origin: String,
}

fn out_to_string(o: &FmtOut) -> String {
    match o {
        FmtOut::Ok(s) => format!("OK:{}", s),
        FmtOut::Refused => "REFUSED".into(),
        FmtOut::Panic(p) => format!("PANIC:{}", p),
    }
}

// ------------------------------------------------------------------------------------------------
// fresh-process reference

/// `tyv worker-fmt <width> <tab> <reorder>`: stdin -> stdout, for the fresh-process reference.
pub fn worker_fmt_main(args: &[String]) -> i32 {
    let w: usize = args[0].parse().unwrap();
    let t: usize = args[1].parse().unwrap();
    let r = args[2] == "1";
    let mut text = String::new();
    use std::io::Read;
    std::io::stdin().read_to_string(&mut text).unwrap();
    let s = out_to_string(&fmtx::fmt(&text, Cfg::new(w, t, r)));
    let mut out = std::io::stdout().lock();
    out.write_all(s.as_bytes()).unwrap();
    0
}

pub fn fresh_process(item: &Item, env: &[(&str, &str)], cwd: Option<&str>) -> Option<String> {
    let exe = std::env::current_exe().ok()?;
    let mut cmd = Command::new(exe);
    cmd.args(["worker-fmt", &item.cfg.width.to_string(), &item.cfg.tab.to_string(), if item.cfg.reorder { "1" } else { "0" }])
        .stdin(Stdio::piped())
        .stdout(Stdio::piped())
        .stderr(Stdio::null());
    for (k, v) in env {
        cmd.env(k, v);
    }
    if let Some(d) = cwd {
        cmd.current_dir(d);
    }
    let mut child = cmd.spawn().ok()?;
    child.stdin.take()?.write_all(item.text.as_bytes()).ok()?;
    let out = child.wait_with_output().ok()?;
    if !out.status.success() {
        return None;
    }
    String::from_utf8(out.stdout).ok()
}

// ------------------------------------------------------------------------------------------------
// items: twins with identical tree shape

/// Twin of `text`: every blank-only Space inside list-like code nodes becomes a line break (flips the
/// "multiline flavor"), `@typstyle off` becomes `@typstyle 0ff`. Same tree shape, same span numbering.
pub fn twin(text: &str) -> Option<String> {
    let root = tree::parse_ok(text)?;
    let mut edits: Vec<(usize, usize, String)> = vec![];
    tree::walk(&root, &mut |n, off, anc| {
        if n.kind() == K::Space && !n.text().contains('\n') {
            if let Some(p) = anc.last() {
                if matches!(p.kind(), K::Args | K::Array | K::Dict | K::Params | K::Destructuring | K::CodeBlock | K::Parenthesized) {
                    edits.push((off, off + n.len(), "\n".into()));
                }
            }
        }
        if tree::is_comment(n.kind()) && n.text().contains("@typstyle off") {
            edits.push((off, off + n.len(), n.text().replace("@typstyle off", "@typstyle 0ff").to_string()));
        }
    });
    if edits.is_empty() {
        return None;
    }
    let mut out = String::new();
    let mut last = 0;
    for (a, b, s) in edits {
        out.push_str(&text[last..a]);
        out.push_str(&s);
        last = b;
    }
    out.push_str(&text[last..]);
    let r2 = tree::parse_ok(&out)?;
    // same shape?
    if tree::count_nodes(&r2) != tree::count_nodes(&root) {
        return None;
    }
    Some(out)
}

/// Token twins: the same tree shape and span numbering with different token *texts* — what a cache keyed by span (or by
/// node address, or by tree shape) cannot tell apart. Variant 0: every integer literal n becomes n+2 (`columns: 2` -> `columns: 4`);
/// variant 1: every code identifier gets its last character replaced by `1` (`table` -> `tabl1`: no longer a table call).
pub fn twin_tokens(text: &str, variant: usize) -> Option<String> {
    let root = tree::parse_ok(text)?;
    let mut edits: Vec<(usize, usize, String)> = vec![];
    for l in tree::leaves(&root) {
        match (variant, l.kind()) {
            (0, K::Int) => {
                if let Ok(v) = l.node.text().parse::<u64>() {
                    if v < 1_000_000 {
                        edits.push((l.start, l.end(), (v + 2).to_string()));
                    }
                }
            }
            (1, K::Ident) => {
                let t = l.node.text().to_string();
                let mut cs: Vec<char> = t.chars().collect();
                match cs.last() {
                    Some(c) if c.is_ascii_alphabetic() && cs.len() > 1 => {
                        let n = cs.len();
                        cs[n - 1] = '1';
                    }
                    _ => cs.push('1'),
                }
                edits.push((l.start, l.end(), cs.into_iter().collect()));
            }
            _ => {}
        }
    }
    if edits.is_empty() {
        return None;
    }
    let mut out = String::new();
    let mut last = 0;
    for (a, b, s) in edits {
        out.push_str(&text[last..a]);
        out.push_str(&s);
        last = b;
    }
    out.push_str(&text[last..]);
    let r2 = tree::parse_ok(&out)?;
    if tree::count_nodes(&r2) != tree::count_nodes(&root) {
        return None;
    }
    Some(out)
}

/// Documents whose output depends on one configuration field in an unusual place (not just the indentation of nested lines):
/// any process-wide copy of a configuration value — a `static`, a cache keyed by text only — makes one call's result depend on
/// which other configurations are in use at the same time. Each is formatted under every tab size and several widths.
const CONFIG_SENSITIVE: [&str; 12] = [
    "#{\n\t/* layout:\n\tpage\n\t\tcolumn\n\t\t\tcell\n*/\n\tlet x = 1\n}",
    "/* a\n\tb\n\t\tc\n */\n#let x = 1",
    "#f(\n\t/* one\n\t   two\n\t\tthree */\n\ta,\n)",
    "#{\n  /* a\n     b\n       c */\n  f(x)\n}",
    "- a\n\t- b\n\t\t- c\n\t\t  d",
    "#table(\n  columns: 3,\n  [a], [b], [c],\n  [d], [e], [f],\n)",
    "#let f(x) = {\n  if x {\n    (1, 2,\n      3)\n  } else [\n    text\n  ]\n}",
    "#import \"lib.typ\": zeta, alpha as a2, alpha, mid.sub as m, mid",
    "$ mat(\n  1, 2;\n  3, 4;\n) $",
    "#show heading: it => block(\n  fill: luma(230), inset: 8pt, radius: 4pt, it.body + [ ] + counter(heading).display(),\n)",
    "#let long = some_function(argument_one, argument_two, argument_three, argument_four, \"five\")",
    "/ Term: description\n  continued\n\n  + one\n    + two #f(a,\n      b)",
];

pub fn build_items(cases: &[crate::engine::Case], n: usize, rng: &mut Rng) -> Vec<Item> {
    let mut items = vec![];
    for (k, t) in CONFIG_SENSITIVE.iter().enumerate() {
        if tree::parse_ok(t).is_none() {
            continue;
        }
        for (j, tab) in [1usize, 2, 4, 8, 3].into_iter().enumerate() {
            let w = [fmtx::W_INF, 0, 40, 80, 20][(k + j) % 5];
            items.push(Item { text: t.to_string(), cfg: Cfg::new(w, tab, j % 2 == 1), origin: format!("config-sensitive#{}|tab{}", k, tab) });
        }
    }
    let mut idx: Vec<usize> = (0..cases.len()).collect();
    rng.shuffle(&mut idx);
    // documents with `@typstyle off` regions, comments and imports exercise the per-call attribute state:
    // always have some of each among the items
    let mut forced: Vec<usize> = vec![];
    for pat in ["@typstyle off", "/*", "#import", "$", "table(", "grid(", "columns:"] {
        forced.extend(idx.iter().copied().filter(|&i| cases[i].text.contains(pat) && cases[i].text.len() < 600).take(6));
    }
    // every import that renames items (sort keys with ties: one path under several aliases)
    forced.extend(idx.iter().copied().filter(|&i| cases[i].text.contains("import") && cases[i].text.matches(" as ").count() >= 2 && cases[i].text.len() < 600).take(40));
    forced.extend(idx.iter().copied());
    let idx = forced;
    for &i in idx.iter() {
        if items.len() >= n {
            break;
        }
        let c = &cases[i];
        if c.text.len() > 4000 || tree::parse_ok(&c.text).is_none() {
            continue;
        }
        // import documents mostly run with reordering on (ties in the sort key must not depend on hash seeds)
        let reorder = if c.text.contains("#import") { rng.chance(3, 4) } else { rng.chance(1, 4) };
        let cfg = Cfg::new(*rng.pick(&[0usize, 20, 40, 80, 120, fmtx::W_INF]), *rng.pick(&[1usize, 2, 4, 8]), reorder);
        items.push(Item { text: c.text.clone(), cfg, origin: c.origin.clone() });
        if let Some(t) = twin(&c.text) {
            items.push(Item { text: t, cfg, origin: format!("{}|twin", c.origin) });
        }
        for v in 0..2 {
            if let Some(t) = twin_tokens(&c.text, v) {
                items.push(Item { text: t, cfg, origin: format!("{}|token-twin{}", c.origin, v) });
            }
        }
        // configuration siblings: the same text under other configurations, in flight at the same time as the item itself
        if items.len() % 5 == 0 {
            for k in 0..2 {
                let other = Cfg::new(*rng.pick(&[0usize, 20, 40, 80, 120, fmtx::W_INF]), *rng.pick(&[1usize, 2, 3, 4, 8]), !cfg.reorder ^ (k == 0));
                if other.width != cfg.width || other.tab != cfg.tab || other.reorder != cfg.reorder {
                    items.push(Item { text: c.text.clone(), cfg: other, origin: format!("{}|config-sibling{}", c.origin, k) });
                }
            }
        }
    }
    items
}

// ------------------------------------------------------------------------------------------------
// histories

pub struct Event {
    pub thread: usize,
    pub item: usize,
    pub seq_in: u64,
    pub seq_out: u64,
    pub out_hash: u64,
}

static SEQ: AtomicU64 = AtomicU64::new(0);

fn call(items: &[Item], i: usize, thread: usize, mode: usize, shared: &[Source], log: &mut Vec<Event>) -> String {
    let it = &items[i];
    let seq_in = SEQ.fetch_add(1, Ordering::SeqCst);
    let s = match mode % 4 {
        // plain entry point
        0 => out_to_string(&fmtx::fmt(&it.text, it.cfg)),
        // a Source object shared between threads
        1 => match fmtx::guarded(|| Typstyle::new(it.cfg.to_config()).format_source(&shared[i])) {
            Ok(Ok(s)) => format!("OK:{}", s),
            Ok(Err(_)) => "REFUSED".into(),
            Err(p) => format!("PANIC:{}", p),
        },
        // one Typstyle value cloned
        2 => {
            let t = Typstyle::new(it.cfg.to_config());
            let t2 = t.clone();
            let _ = fmtx::guarded(|| t.format_source_range(&shared[i], 0..it.text.len().min(7)));
            match fmtx::guarded(|| t2.format_content(it.text.as_str())) {
                Ok(Ok(s)) => format!("OK:{}", s),
                Ok(Err(_)) => "REFUSED".into(),
                Err(p) => format!("PANIC:{}", p),
            }
        }
        // interleave a range call on another document before the real call
        _ => {
            let j = (i + 1) % items.len();
            let _ = fmtx::guarded(|| Typstyle::new(items[j].cfg.to_config()).format_source_range(&shared[j], 0..items[j].text.len()));
            out_to_string(&fmtx::fmt(&it.text, it.cfg))
        }
    };
    let seq_out = SEQ.fetch_add(1, Ordering::SeqCst);
    log.push(Event { thread, item: i, seq_in, seq_out, out_hash: util::hash64(&s) });
    s
}

pub struct HistoryResult {
    pub events: Vec<Event>,
    /// (item, thread, got) for mismatches
    pub mismatches: Vec<(usize, usize, String)>,
}

/// Run `threads` threads, each walking its own permutation of the items `rounds` times.
pub fn concurrent_history(items: &[Item], reference: &[String], threads: usize, rounds: usize, seed: u64, yields: bool) -> HistoryResult {
    let shared: Vec<Source> = items.iter().map(|it| Source::detached(it.text.as_str())).collect();
    let barrier = Arc::new(Barrier::new(threads));
    let mut all_events = vec![];
    let mut mismatches = vec![];
    std::thread::scope(|s| {
        let mut handles = vec![];
        for t in 0..threads {
            let barrier = barrier.clone();
            let shared = &shared;
            handles.push(
                std::thread::Builder::new()
                    .stack_size(16 << 20)
                    .spawn_scoped(s, move || {
                        let mut rng = Rng::new(seed ^ (t as u64).wrapping_mul(0x9E37_79B9));
                        let mut log = vec![];
                        let mut bad = vec![];
                        barrier.wait();
                        for round in 0..rounds {
                            let mut order: Vec<usize> = (0..items.len()).collect();
                            rng.shuffle(&mut order);
                            for &i in &order {
                                let got = call(items, i, t, rng.below(4) + round, shared, &mut log);
                                if got != reference[i] {
                                    bad.push((i, t, got));
                                }
                                if yields {
                                    match rng.below(8) {
                                        0 => std::thread::yield_now(),
                                        1 => std::thread::sleep(std::time::Duration::from_micros(rng.below(200) as u64)),
                                        _ => {}
                                    }
                                }
                            }
                        }
                        (log, bad)
                    })
                    .unwrap(),
            );
        }
        for h in handles {
            let (log, bad) = h.join().unwrap();
            all_events.extend(log);
            mismatches.extend(bad);
        }
    });
    HistoryResult { events: all_events, mismatches }
}

/// One thread per item (the items are configurations of the same text), each formatting its item `rounds` times from a barrier.
pub fn crosstalk_history(items: &[Item], reference: &[String], rounds: usize) -> HistoryResult {
    let barrier = Arc::new(Barrier::new(items.len()));
    let mut all_events = vec![];
    let mut mismatches = vec![];
    std::thread::scope(|s| {
        let mut handles = vec![];
        for t in 0..items.len() {
            let barrier = barrier.clone();
            handles.push(
                std::thread::Builder::new()
                    .stack_size(16 << 20)
                    .spawn_scoped(s, move || {
                        let mut log = vec![];
                        let mut bad = vec![];
                        barrier.wait();
                        for _ in 0..rounds {
                            let seq_in = SEQ.fetch_add(1, Ordering::SeqCst);
                            let got = out_to_string(&fmtx::fmt(&items[t].text, items[t].cfg));
                            let seq_out = SEQ.fetch_add(1, Ordering::SeqCst);
                            log.push(Event { thread: t, item: t, seq_in, seq_out, out_hash: util::hash64(&got) });
                            if got != reference[t] {
                                bad.push((t, t, got));
                            }
                        }
                        (log, bad)
                    })
                    .unwrap(),
            );
        }
        for h in handles {
            let (log, bad) = h.join().unwrap();
            all_events.extend(log);
            mismatches.extend(bad);
        }
    });
    HistoryResult { events: all_events, mismatches }
}

/// Number of pairs of calls from different threads whose [seq_in, seq_out] intervals overlap.
pub fn overlapping_pairs(events: &[Event]) -> u64 {
    let mut ev: Vec<(u64, u64, usize)> = events.iter().map(|e| (e.seq_in, e.seq_out, e.thread)).collect();
    ev.sort_unstable();
    let mut n = 0u64;
    for i in 0..ev.len() {
        let mut j = i + 1;
        while j < ev.len() && ev[j].0 < ev[i].1 {
            if ev[j].2 != ev[i].2 {
                n += 1;
            }
            j += 1;
            if j - i > 256 {
                break;
            }
        }
    }
    n
}

fn push_mismatch(acc: &mut Acc, items: &[Item], reference: &[String], i: usize, history: &str, got: &str) {
    let it = &items[i];
    acc.violations.push(Violation {
        property: "C17".into(),
        input: it.text.clone(),
        cfg: Some(it.cfg),
        origin: it.origin.clone(),
        oracle: "equals-fresh-process-reference".into(),
        detail: format!(
            "history '{}': result differs from the fresh-process reference: {}",
            history,
            crate::treeprops::first_line_diff(&reference[i], got)
        ),
        extra: json!({"history": history}),
    });
}

/// The full C17 monitor over a set of items.
pub fn run(items: &[Item], thread_counts: &[usize], rounds: usize, seed: u64, process_env_variants: usize, acc: &mut Acc) {
    // reference: one fresh process per item
    use rayon::prelude::*;
    let reference: Vec<Option<String>> = items.par_iter().map(|it| fresh_process(it, &[], None)).collect();
    let mut keep: Vec<usize> = vec![];
    for (i, r) in reference.iter().enumerate() {
        if r.is_some() {
            keep.push(i);
        } else {
            acc.inconclusive("reference-process-failed");
        }
    }
    let items: Vec<Item> = keep.iter().map(|&i| items[i].clone()).collect();
    let reference: Vec<String> = keep.iter().map(|&i| reference[i].clone().unwrap()).collect();
    acc.count("items", items.len() as u64);
    acc.count("twin_items", items.iter().filter(|i| i.origin.ends_with("|twin")).count() as u64);
    for it in &items {
        acc.distinct_inputs.insert(util::hash64(&it.text));
    }
    if items.is_empty() {
        return;
    }
    let shared: Vec<Source> = items.iter().map(|it| Source::detached(it.text.as_str())).collect();

    // (i) same item ×100 in one thread
    let mut log = vec![];
    for i in 0..items.len().min(400) {
        for k in 0..100 {
            let got = call(&items, i, 0, k, &shared, &mut log);
            acc.evaluations += 1;
            if got != reference[i] {
                push_mismatch(acc, &items, &reference, i, "same item x100 in one thread", &got);
                break;
            } else {
                acc.held += 1;
            }
        }
    }
    // (ii) all items in k random orders on one thread
    let mut rng = Rng::new(seed ^ 0x1717);
    for _ in 0..3 {
        let mut order: Vec<usize> = (0..items.len()).collect();
        rng.shuffle(&mut order);
        for &i in &order {
            let got = call(&items, i, 0, rng.below(4), &shared, &mut log);
            acc.evaluations += 1;
            if got != reference[i] {
                push_mismatch(acc, &items, &reference, i, "shuffled sequential order on one thread", &got);
            } else {
                acc.held += 1;
                acc.nontrivial.insert(util::hash64_parts(&[&items[i].text, &items[i].cfg.to_string()]));
            }
        }
    }
    // (ii-b) a long-lived worker thread (language server): the whole item list, many rounds, one thread
    {
        let res = concurrent_history(&items, &reference, 1, 40, seed ^ 0x1ead, false);
        acc.evaluations += res.events.len() as u64;
        acc.count("long_lived_worker_calls", res.events.len() as u64);
        acc.held += (res.events.len() - res.mismatches.len()) as u64;
        for (i, _t, got) in res.mismatches.iter().take(10) {
            push_mismatch(acc, &items, &reference, *i, "one long-lived worker thread, 40 rounds over all items", got);
        }
    }
    acc.count("sequential_calls", log.len() as u64);
    // (iii)+(iv) concurrent histories
    for &tc in thread_counts {
        let res = concurrent_history(&items, &reference, tc, rounds, seed ^ tc as u64, true);
        acc.evaluations += res.events.len() as u64;
        acc.count("concurrent_calls", res.events.len() as u64);
        let ov = overlapping_pairs(&res.events);
        acc.count("overlapping_call_pairs_observed", ov);
        acc.max("max_threads", tc as u64);
        acc.held += (res.events.len() - res.mismatches.len()) as u64;
        for (i, _t, got) in res.mismatches.iter().take(20) {
            push_mismatch(acc, &items, &reference, *i, &format!("{} concurrent threads", tc), got);
        }
    }
    // (iii-b) configuration crosstalk: all configurations of one text in flight at the same time, one thread per configuration,
    // many rounds from a barrier — the window between "configuration stored" and "configuration used" of any process-wide copy
    {
        let mut groups: std::collections::BTreeMap<u64, Vec<usize>> = Default::default();
        for (i, it) in items.iter().enumerate() {
            if it.origin.starts_with("config-sensitive#") || it.origin.contains("|config-sibling") {
                groups.entry(util::hash64(&it.text)).or_default().push(i);
            }
        }
        // a sibling's group also contains the item it was derived from
        for (i, it) in items.iter().enumerate() {
            if let Some(g) = groups.get_mut(&util::hash64(&it.text)) {
                if !g.contains(&i) {
                    g.push(i);
                }
            }
        }
        let mut calls = 0u64;
        let mut ov = 0u64;
        let mut reported = 0;
        for (_, g) in groups.iter().filter(|(_, g)| g.len() >= 2).take(120) {
            let sub: Vec<Item> = g.iter().map(|&i| items[i].clone()).collect();
            let subref: Vec<String> = g.iter().map(|&i| reference[i].clone()).collect();
            let res = crosstalk_history(&sub, &subref, 150);
            calls += res.events.len() as u64;
            ov += overlapping_pairs(&res.events);
            acc.evaluations += res.events.len() as u64;
            acc.held += (res.events.len() - res.mismatches.len()) as u64;
            if let Some((i, _t, got)) = res.mismatches.first() {
                if reported < 10 {
                    push_mismatch(acc, &items, &reference, g[*i], &format!("configuration crosstalk: {} configurations of one text on {} threads", sub.len(), sub.len()), got);
                    reported += 1;
                }
            }
        }
        acc.count("crosstalk_calls", calls);
        acc.count("crosstalk_overlapping_call_pairs_observed", ov);
    }
    // (v) separate processes with different environments
    let envs: Vec<(Vec<(&str, &str)>, Option<&str>)> = vec![
        (vec![("LANG", "tr_TR.UTF-8"), ("LC_ALL", "tr_TR.UTF-8"), ("TZ", "Pacific/Kiritimati")], Some("/")),
        (vec![("HOME", "/nonexistent"), ("RUST_BACKTRACE", "full"), ("TZ", "UTC")], Some("/tmp")),
        (vec![("LANG", "C"), ("NO_COLOR", "1"), ("TERM", "dumb"), ("COLUMNS", "10")], None),
    ];
    let n_proc = items.len().min(process_env_variants);
    let results: Vec<(usize, usize, Option<String>)> = (0..n_proc * envs.len())
        .into_par_iter()
        .map(|k| {
            let i = k / envs.len();
            let e = k % envs.len();
            (i, e, fresh_process(&items[i], &envs[e].0, envs[e].1))
        })
        .collect();
    for (i, e, got) in results {
        acc.evaluations += 1;
        acc.count("fresh_process_calls_with_varied_environment", 1);
        match got {
            Some(g) if g == reference[i] => acc.held += 1,
            Some(g) => push_mismatch(acc, &items, &reference, i, &format!("separate process, environment variant {}", e), &g),
            None => acc.inconclusive("env-process-failed"),
        }
    }
    if acc.samples.len() < 2 {
        if let Some(it) = items.iter().find(|i| i.origin.ends_with("|twin") && i.text.len() < 120) {
            acc.sample(json!({"twin_item": it.text, "cfg": it.cfg.json(), "origin": it.origin}));
        }
    }
}

// ------------------------------------------------------------------------------------------------
// (vi) delivery: the command line front-end given the same text as a file argument and on standard input, written in one
// piece and in chunks whose boundaries fall inside multi-byte characters, slowly and fast. "Depends on nothing but the source
// text and the configuration" includes how the bytes arrive.

fn cli_run(args: &[String], stdin: Option<(&[u8], usize, bool)>) -> Option<Vec<u8>> {
    let mut cmd = Command::new(crate::p_cli::cli_bin());
    cmd.args(args).stdout(Stdio::piped()).stderr(Stdio::null());
    cmd.stdin(if stdin.is_some() { Stdio::piped() } else { Stdio::null() });
    let mut child = cmd.spawn().ok()?;
    let writer = stdin.map(|(data, chunk, slow)| {
        let data = data.to_vec();
        let mut si = child.stdin.take().unwrap();
        std::thread::spawn(move || {
            let mut k = 0usize;
            for piece in data.chunks(chunk.max(1)) {
                if si.write_all(piece).is_err() || si.flush().is_err() {
                    break;
                }
                k += 1;
                // let the reader drain the pipe so that its next read ends at this boundary
                if slow && (k <= 40 || k % 16 == 0) {
                    std::thread::sleep(std::time::Duration::from_micros(if k <= 40 { 1500 } else { 200 }));
                }
            }
        })
    });
    let out = child.wait_with_output().ok()?;
    if let Some(w) = writer {
        let _ = w.join();
    }
    if !out.status.success() {
        return None;
    }
    Some(out.stdout)
}

pub fn delivery_history(acc: &mut Acc, thorough: bool) {
    if !crate::p_cli::cli_bin().exists() {
        acc.inconclusive("cli-binary-missing(delivery history skipped)");
        return;
    }
    let mut big = String::new();
    for n in 0..2600 {
        big.push_str(&format!("第{}段 文字 naïve café — “引号” 😀 #f( {},{} ) 结束。\n\n", n, n, n + 1));
    }
    let mut emoji = String::from("= 😀 标题\n\n");
    for n in 0..300 {
        emoji.push_str(&format!("- 项目 {} 😀😀 `raw` $x_{} + α$\n", n, n));
    }
    let texts: Vec<(&str, String)> = vec![
        ("small CJK", "= 标题\n\n你好，世界。 #f( 1,2 )\n".to_string()),
        ("list with emoji (~12 kB)", emoji),
        ("CJK prose (> 64 KiB)", big),
    ];
    let dir = std::env::temp_dir().join(format!("tyv-delivery-{}", std::process::id()));
    let _ = std::fs::create_dir_all(&dir);
    let styles: Vec<Vec<String>> = vec![vec![], vec!["-c".into(), "40".into(), "-t".into(), "4".into()]];
    let mut deliveries = 0u64;
    let mut boundaries_inside_chars = 0u64;
    for (ti, (name, text)) in texts.iter().enumerate() {
        let path = dir.join(format!("t{}.typ", ti));
        if std::fs::write(&path, text).is_err() {
            acc.inconclusive("delivery-harness-error");
            continue;
        }
        let bytes = text.as_bytes();
        for style in &styles {
            let mut a = style.clone();
            a.push(path.to_string_lossy().to_string());
            let Some(reference) = cli_run(&a, None) else {
                acc.inconclusive("delivery-reference-failed");
                continue;
            };
            let mut chunkings: Vec<(usize, bool)> = vec![(usize::MAX, false), (3, true), (1000, true), (4099, false), (65_535, true), (65_537, false)];
            if bytes.len() < 20_000 {
                chunkings.push((1, true));
                chunkings.push((7, false));
            }
            if thorough {
                chunkings.extend([(2, true), (5, true), (64, true), (1023, true), (8191, true), (8193, false), (32_769, true)]);
            }
            for (chunk, slow) in chunkings {
                // chunk size 1/2/3/5/7 on a text beyond 20 kB would take minutes when slow
                if slow && chunk < 64 && bytes.len() > 20_000 {
                    continue;
                }
                let got = cli_run(style, Some((bytes, chunk, slow)));
                acc.evaluations += 1;
                deliveries += 1;
                if chunk < bytes.len() {
                    boundaries_inside_chars += (1..bytes.len() / chunk.max(1) + 1).filter(|k| k * chunk < bytes.len() && !text.is_char_boundary(k * chunk)).count() as u64;
                }
                match got {
                    None => acc.inconclusive("delivery-process-failed"),
                    Some(g) if g == reference => {
                        acc.held += 1;
                        acc.nontrivial.insert(util::hash64_parts(&["delivery", name, &chunk.to_string(), &style.join(" ")]));
                    }
                    Some(g) => acc.violations.push(Violation {
                        property: "C17".into(),
                        input: text.chars().take(2000).collect(),
                        cfg: None,
                        origin: format!("delivery: {}", name),
                        oracle: "same-bytes-however-delivered".into(),
                        detail: format!(
                            "`typstyle {}` reading the text on standard input in chunks of {} bytes{} prints something else than for the same text as a file argument: {}",
                            style.join(" "),
                            if chunk == usize::MAX { "all".to_string() } else { chunk.to_string() },
                            if slow { " (paced writer)" } else { "" },
                            crate::treeprops::first_line_diff(&String::from_utf8_lossy(&reference), &String::from_utf8_lossy(&g))
                        ),
                        extra: json!({"history": "delivery", "chunk": if chunk == usize::MAX { 0 } else { chunk }, "slow": slow}),
                    }),
                }
            }
        }
    }
    let _ = std::fs::remove_dir_all(&dir);
    acc.count("cli_deliveries", deliveries);
    acc.count("chunk_boundaries_inside_multibyte_characters", boundaries_inside_chars);
}

/// Small self-contained concurrent workload for the sanitizer builds (TSan, Miri): no subprocesses.
pub fn stress_main(threads: usize, rounds: usize, n_items: usize) -> i32 {
    let texts = [
        "#let f(a, b) = (a, b)\n#f( 1, 2)",
        "#let f(a, b) = (a, b)\n#f(\n1, 2)",
        "// @typstyle off\n#let   x   =   1\n#let   y   =   2",
        "// @typstyle 0ff\n#let   x   =   1\n#let   y   =   2",
        "$ a + b /* c */ $ text *strong* #f[x] `raw`",
        "#import \"a\": c, b, a\n- item\n  - nested #g(x => x + 1)",
        "#table(columns: 2, [a], [b], [c], [d])",
        "#{ let x = (1, 2, 3).map(i => i * 2); x }",
    ];
    let mut texts: Vec<String> = texts.iter().map(|t| t.to_string()).collect();
    if n_items > texts.len() {
        // the sanitizer builds with room for more (ThreadSanitizer): an even sample of the committed corpus
        let mut pool = crate::corpus::snippets();
        pool.extend(crate::corpus::adversarial());
        let want = n_items - texts.len();
        let step = (pool.len() / want.max(1)).max(1);
        texts.extend(pool.iter().step_by(step).take(want).filter(|c| c.text.len() < 2000).map(|c| c.text.clone()));
    }
    let items: Vec<Item> = texts
        .iter()
        .take(n_items.max(2))
        .enumerate()
        .map(|(i, t)| Item { text: t.to_string(), cfg: Cfg::new([0, 20, 80, 120][i % 4], 1 + i % 4, i % 3 == 0), origin: format!("stress#{}", i) })
        .collect();
    let reference: Vec<String> = items.iter().map(|it| out_to_string(&fmtx::fmt(&it.text, it.cfg))).collect();
    let res = concurrent_history(&items, &reference, threads, rounds, 7, false);
    println!(
        "STRESS threads={} calls={} overlapping_pairs={} mismatches={}",
        threads,
        res.events.len(),
        overlapping_pairs(&res.events),
        res.mismatches.len()
    );
    if res.mismatches.is_empty() {
        0
    } else {
        for (i, t, got) in res.mismatches.iter().take(3) {
            println!("MISMATCH item={} thread={} got={:?} want={:?}", i, t, util::clip(got, 80), util::clip(&reference[*i], 80));
        }
        1
    }
}
