//! Properties that need more than the (text, cfg) -> text tree driver.

use crate::engine::{Acc, RunMeta, Violation};
use crate::workload::Tier;

pub fn violated(_v: &Violation, _new_input: &str) -> Option<bool> {
    None
}

pub fn run(prop: &str, _tier: Tier) -> (RunMeta, Acc) {
    panic!("property {} not implemented", prop)
}

pub fn check(prop: &str, _tier: Tier) -> i32 {
    println!("INCONCLUSIVE property={} reason=not-implemented", prop);
    2
}

/// Reproducers of *fixed* findings are part of every run of their property: a regression is a violation.
pub fn run_fixed_repros(prop: &str, acc: &mut Acc) {
    let db = crate::findings::load();
    for f in db.iter().filter(|f| f.status == "fixed" && f.properties.iter().any(|p| p == prop)) {
        for r in &f.repros {
            if r["property"].as_str() != Some(prop) {
                continue;
            }
            let v = crate::props::violation_from_json(r);
            acc.evaluations += 1;
            match crate::props::violated(&v, &v.input.clone()) {
                Some(true) => {
                    let mut v = v.clone();
                    v.origin = format!("regression of fixed finding {}", f.id);
                    v.detail = format!("reproducer of fixed finding {} fails again: {}", f.id, f.what);
                    acc.violations.push(v);
                }
                Some(false) => {
                    acc.held += 1;
                    acc.count("fixed_finding_reproducers_held", 1);
                }
                None => acc.inconclusive("fixed-repro-inconclusive"),
            }
        }
    }
}
