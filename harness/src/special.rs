//! Properties that need more than the (text, cfg) -> text tree driver.

use crate::engine::{Acc, RunMeta, Violation};
use crate::fmtx::{self, Cfg};
use crate::pools::{self, ListPool};
use crate::report;
use crate::util::{self, Rng};
use crate::workload::{self, CfgRule, Part, Std, Tier};
use crate::{corpus, gen, p_import, p_indent, p_off, p_perf, p_pure, p_range, p_total};

pub fn violated(v: &Violation, new_input: &str) -> Option<bool> {
    match v.property.as_str() {
        "C05" => {
            if v.extra["checked_profile"].as_bool() == Some(true) {
                p_total::checked_one(new_input, v.cfg?)
            } else if v.oracle == "depth-ladder" {
                p_total::ladder_violated(&v.extra, v.cfg?)
            } else if v.oracle == "no-abort" {
                p_total::dies_in_isolation(new_input, v.cfg?).map(|d| d.0)
            } else {
                p_total::violated(new_input, v.cfg?)
            }
        }
        "C07" => p_off::violated(new_input, v.cfg?),
        "C12" => p_indent::violated(new_input),
        "C13" => p_range::violated(new_input, v.cfg?, &v.extra),
        "C18" => p_perf::violated(new_input, v.cfg?, &v.extra),
        "C19" => p_import::violated(new_input, v.cfg?),
        "C02" => crate::p_world::violated(new_input, v.cfg?),
        "C14" | "C15" | "C16" => crate::p_cli::violated(v, new_input),
        _ => None,
    }
}

fn gens(parts: &mut Vec<Part>, q: usize, t: usize) {
    for g in gen::all_gen_pools() {
        parts.push(Part { pool: g, quick: q, thorough: t, cfg: CfgRule::Fixed(vec![]) });
    }
}

fn fixed() -> CfgRule {
    CfgRule::Fixed(vec![])
}

pub fn run(prop: &str, tier: Tier) -> (RunMeta, Acc) {
    let seed = util::seed_from_env();
    match prop {
        "C12" => {
            let std = Std::load();
            let mut meta = RunMeta::new(
                prop,
                tier.name(),
                "exploration",
                "every input is formatted with tab_spaces = 1..8 at width 2^40; the eight outputs are compared line by line (equal remainders, leading spaces = level × unit, same set of source-indented lines); one evaluation = one format call; distinct = input hash; non-trivial = the output has at least one non-exempt line with indentation level ≥ 1",
            );
            let sb = std.small_bases.clone();
            let mut parts = vec![
                Part::new(std.base_list(), usize::MAX, usize::MAX, fixed()),
                Part::new(pools::ws_pool(sb.clone()), 4000, 80_000, fixed()),
                Part::new(pools::comment_pool(sb.clone()), 4000, 80_000, fixed()),
                Part::new(pools::paren_pool(sb.clone()), 1500, 33_196, fixed()),
                Part::new(pools::splice_pool(sb.clone(), std.frags.clone()), 2000, 72_678, fixed()),
                Part::new(p_off::off_pool(sb.clone()), 1500, 40_000, fixed()),
            ];
            gens(&mut parts, 800, 8000);
            let (mut acc, pm) = workload::run_parts(&parts, tier, seed, |_, case, _, acc| p_indent::run_case(case, acc));
            meta.pools = pm;
            meta.assumptions = vec!["lines are LF-delimited; indentation = leading U+0020 characters".into(), "exempt lines are recomputed from the parse tree of each output (block comments, strings, raw, nodes after @typstyle off)".into()];
            run_fixed_repros(prop, &mut acc);
            (meta, acc)
        }
        "C07" => {
            let std = Std::load();
            let mut meta = RunMeta::new(
                prop,
                tier.name(),
                "exploration",
                "directive injection (block and line form of '@typstyle off') before every expression / code body / math node of snippets, adversarial inputs and small fixtures, payload uglified three ways, plus the corpus' own directives; k-th directive of the input is paired with the k-th of the output and the protected nodes' source texts are compared modulo end-of-line blanks; distinct = input hash; non-trivial = the same input with the directive spelled '@typstyle 0ff' formats differently (the directive actually protected something)",
            );
            let sb = std.small_bases.clone();
            let cfgs: Vec<Cfg> = [0usize, 20, 40, 80, fmtx::W_INF]
                .iter()
                .flat_map(|&w| [1usize, 2, 4].iter().map(move |&t| Cfg::new(w, t, false)))
                .collect();
            let parts = vec![
                Part::new(std.base_list(), usize::MAX, usize::MAX, CfgRule::Fixed(cfgs.clone())),
                Part::new(p_off::off_pool(sb.clone()), 12_000, usize::MAX, CfgRule::Fixed(cfgs.clone())),
                Part::new(p_off::off3_pool(sb.clone()), 5_000, usize::MAX, CfgRule::Fixed(cfgs.clone())),
                Part::new(p_off::off4_pool(std.snippet_bases.clone()), 5_000, usize::MAX, CfgRule::Fixed(cfgs.clone())),
            ];
            let (mut acc, pm) = workload::run_parts(&parts, tier, seed, |part, case, _, acc| {
                if let CfgRule::Fixed(c) = &part.cfg {
                    p_off::run_case(case, c, acc)
                }
            });
            meta.pools = pm;
            meta.assumptions = vec!["scope = directive comment whose next sibling (skipping Space and '#') is an expression, a code body or a math body (DESIGN.md §8)".into()];
            run_fixed_repros(prop, &mut acc);
            (meta, acc)
        }
        "C19" => {
            let std = Std::load();
            let mut meta = RunMeta::new(
                prop,
                tier.name(),
                "exploration",
                "import generator (plain / renamed / dotted / parenthesised / multi-line / comments at item gaps / duplicate names / wildcard, embedded in markup, code blocks, closures) plus all corpus imports; each input formatted with reorder off and on at several widths, plus two permuted twins per eligible import; evaluation = one format call; distinct = input hash; non-trivial = some import without comment/duplicate actually changed its item order under reorder on",
            );
            let sb = std.small_bases.clone();
            let cfgs = [(0usize, 2usize), (20, 2), (40, 4), (80, 2), (fmtx::W_INF, 2)];
            let gi = pools::GenPool { name: "G-IMPORT".into(), n: gen::GEN_N, f: Box::new(gen::gen_import) };
            let parts = vec![
                Part::new(std.base_list(), usize::MAX, usize::MAX, fixed()),
                Part::new(gi, 6000, gen::GEN_N, fixed()),
                Part::new(pools::GenPool { name: "G-IMPORT-BLANK".into(), n: 6000, f: Box::new(gen::gen_import_blank) }, 1500, 6000, fixed()),
                Part::new(pools::comment_pool(sb.clone()), 6000, 100_000, fixed()),
                Part::new(pools::ws_pool(sb.clone()), 2000, 40_000, fixed()),
            ];
            let (mut acc, pm) = workload::run_parts(&parts, tier, seed, |_, case, _, acc| {
                if !case.text.contains("import") {
                    acc.inconclusive("no-import");
                    return;
                }
                p_import::run_case(case, &cfgs, acc)
            });
            meta.pools = pm;
            meta.assumptions = vec!["'contains comments' = a comment node anywhere below the ModuleImport node; 'sorted' = canonical under permutation of the source items, sort key not prescribed (DESIGN.md §8)".into()];
            run_fixed_repros(prop, &mut acc);
            (meta, acc)
        }
        "C13" => {
            let std = Std::load();
            let mut meta = RunMeta::new(
                prop,
                tier.name(),
                "exploration",
                "for every source ≤ 80 bytes ALL (start,end) pairs on character boundaries with start ≤ end ≤ len+3; for larger sources a seeded sample of pairs (incl. empty, whole document, past-the-end); well-formed and erroneous (havoc) sources; evaluation = one format_source_range call under catch_unwind; distinct = source hash; non-trivial = at least one request on that source returned text that was spliced and compared",
            );
            let sb = std.small_bases.clone();
            let cfgs = vec![Cfg::new(80, 2, false), Cfg::new(0, 2, false), Cfg::new(40, 4, false)];
            let snb = std.snippet_bases.clone();
            let _ = sb;
            // mutation bases among the range shapes: only those whose whole-document formatting keeps the tree at the three
            // configurations used here (mutating an input that already fails only multiplies the same finding)
            let healthy_shapes: Vec<crate::engine::Case> = corpus::range_shapes()
                .into_iter()
                .filter(|c| {
                    let Some(px) = crate::tree::parse_ok(&c.text) else { return false };
                    let nx = crate::nf::nf(&px, crate::nf::NfOpts { sort_imports: false });
                    cfgs.iter().all(|&cfg| match fmtx::fmt(&c.text, cfg) {
                        fmtx::FmtOut::Ok(y) => {
                            let py = typst_syntax::parse(&y);
                            !py.erroneous() && crate::nf::first_diff(&nx, &crate::nf::nf(&py, crate::nf::NfOpts { sort_imports: false })).is_none()
                        }
                        _ => false,
                    })
                })
                .collect();
            let mut parts = vec![
                Part::new(std.base_list(), 700, usize::MAX, fixed()),
                Part::new(pools::stride(pools::comment_pool(snb.clone()), 8), 600, usize::MAX, fixed()),
                Part::new(pools::stride(pools::uni_pool(snb.clone()), 4), 300, usize::MAX, fixed()),
                Part::new(pools::stride(pools::eol_pool(snb.clone()), 2), 200, usize::MAX, fixed()),
                Part::new(pools::stride(pools::eolblank_pool(snb.clone()), 4), 300, usize::MAX, fixed()),
                Part::new(pools::stride(p_total::havoc_pool(snb.clone()), 10), 600, usize::MAX, fixed()),
                Part::new(ListPool { name: "corpus(hostile)".into(), cases: corpus::hostile() }, 300, usize::MAX, fixed()),
                Part::new(ListPool { name: "corpus(range-shapes)".into(), cases: corpus::range_shapes() }, usize::MAX, usize::MAX, fixed()),
                Part::new(pools::stride(pools::comment_pool(pools::make_bases(healthy_shapes.clone())), 3), 300, usize::MAX, fixed()),
                Part::new(pools::stride(pools::ws_pool(pools::make_bases(healthy_shapes.clone())), 3), 200, usize::MAX, fixed()),
            ];
            for g in gen::all_gen_pools() {
                parts.push(Part::new(pools::StridePool { inner: g, stride: 5 }, 250, usize::MAX, fixed()));
            }
            let sampled = if tier == Tier::Quick { 60 } else { 300 };
            let (mut acc, pm) = workload::run_parts(&parts, tier, seed, |_, case, rng, acc| {
                if case.text.len() > 200_000 {
                    acc.inconclusive("source-too-large");
                    return;
                }
                let c = if case.text.len() <= 80 { &cfgs[..] } else { &cfgs[..1] };
                p_range::run_case(case, 80, sampled, c, rng, acc)
            });
            meta.pools = pm;
            meta.assumptions = vec!["equivalence of the spliced source uses the same normal form N as C01".into(), "requests with start > end or off character boundaries are outside the statement".into()];
            run_fixed_repros(prop, &mut acc);
            (meta, acc)
        }
        "C05" => {
            let std = Std::load();
            let mut meta = RunMeta::new(
                prop,
                tier.name(),
                "exploration",
                "hostile corpus, random UTF-8 over a Typst-significant alphabet (all newline/blank characters, BOM, NUL, arbitrary scalars), havoc-damaged and truncated corpus items, EOL mutants, degenerate tables, each under extreme configurations (max_width ∈ {0,1,2,7,40,80,2^20,2^40,usize::MAX/2}, tab_spaces ∈ 0..=64); plus depth ladders 1..8192 for 20 wrapper families in isolated worker processes (formatting must survive every depth that parsing alone survives); evaluation = one observed call; distinct = input hash; non-trivial = the input has syntax errors (refusal rule exercised) or the output differs from the input",
            );
            let sb = std.small_bases.clone();
            let parts = vec![
                Part::new(ListPool { name: "corpus(hostile)".into(), cases: corpus::hostile() }, usize::MAX, usize::MAX, fixed()),
                Part::new(std.base_list(), usize::MAX, usize::MAX, fixed()),
                Part::new(p_total::random_pool(), 30_000, 200_000, fixed()),
                Part::new(p_total::havoc_pool(std.small_bases.clone()), 20_000, 200_000, fixed()),
                Part::new(p_total::prefix_pool(std.snippet_bases.clone()), 10_000, usize::MAX, fixed()),
                Part::new(pools::eol_pool(sb.clone()), 2000, 18_391, fixed()),
                Part::new(pools::eolblank_pool(sb.clone()), 1000, 31_770, fixed()),
                Part::new(pools::uni_pool(sb.clone()), 1000, 21_240, fixed()),
                Part::new(pools::comment_pool(sb.clone()), 3000, 60_000, fixed()),
                Part::new(pools::GenPool { name: "G-TABLE".into(), n: gen::GEN_N, f: Box::new(gen::gen_table) }, 2000, gen::GEN_N, fixed()),
                Part::new(pools::GenPool { name: "G-NEST".into(), n: gen::GEN_N, f: Box::new(gen::gen_nest) }, 2000, gen::GEN_N, fixed()),
            ];
            let ncfg = if tier == Tier::Quick { 3 } else { 8 };
            let (mut acc, pm) = workload::run_parts(&parts, tier, seed, |_, case, rng, acc| {
                if case.text.len() > 300_000 {
                    acc.inconclusive("input-too-large");
                    return;
                }
                let cfgs = p_total::cfgs_for(rng, ncfg);
                p_total::run_case(case, &cfgs, acc)
            });
            meta.pools = pm;
            // depth ladders in isolated processes
            let mut fams: Vec<usize> = (0..gen::NEST_FAMILIES_ALL).collect();
            let mut rng = Rng::new(seed ^ 0xC05);
            let n_mixed = if tier == Tier::Quick { 6 } else { 60 };
            for k in 0..n_mixed {
                fams.push(if k % 2 == 0 { 1000 + rng.below(100_000) } else { 2_000_000 + rng.below(100_000) });
            }
            let max_depth = if tier == Tier::Quick { 2048 } else { 8192 };
            p_total::run_ladders(&fams, max_depth, &mut acc);
            // the same observations with integer-overflow checks and debug assertions on
            p_total::run_checked_slice(seed, tier != Tier::Quick, &mut acc);
            meta.assumptions = vec![
                "CPU budget 10 s per call (two orders of magnitude above the slowest call of the pre-sweep); a wall-clock watchdog only yields inconclusive".into(),
                "release profile (what users run)".into(),
                "depth ladders run on an 8 MiB main-thread stack in a fresh process each".into(),
            ];
            run_fixed_repros(prop, &mut acc);
            (meta, acc)
        }
        "C18" => {
            let std = Std::load();
            let mut meta = RunMeta::new(
                prop,
                tier.name(),
                "exploration",
                "hook counters (entries into convert_expr/convert_pattern/convert_markup_impl/convert_math) are read after every format call and compared with the number of syntax nodes (conversions ≤ 2·nodes + 8); corpus, generators and splice/paren/comment/whitespace mutants at widths {0,40,80,120,2^40} (thorough: the 26-width grid × tab 2,4); depth ladders 1..256 for 26 pure wrapper families and seed-chosen mixed nestings, and flat families (n-term chains, n-call dot chains, n items/args/statements/lines/rows/cells, n = 1..1024) (a ladder stops at its first violation); secondary monitors: bytes allocated per call vs input+output size, CPU growth along ladders; distinct = input hash / ladder point; non-trivial = ≥ 20 syntax nodes",
            );
            // quick: five widths; thorough/full: the 26-width grid × tab sizes {2, 4}
            let cfgs: Vec<Cfg> = if tier == Tier::Quick {
                [0usize, 40, 80, 120, fmtx::W_INF].iter().map(|&w| Cfg::new(w, 2, false)).collect()
            } else {
                workload::WIDTH_GRID.iter().flat_map(|&w| [2usize, 4].into_iter().map(move |t| Cfg::new(w, t, false))).collect()
            };
            let mut parts = vec![Part::new(std.base_list(), usize::MAX, usize::MAX, fixed())];
            gens(&mut parts, 1500, gen::GEN_N);
            parts.push(Part::new(pools::splice_pool(std.small_bases.clone(), std.frags.clone()), 3000, 72_678, fixed()));
            parts.push(Part::new(pools::paren_pool(std.small_bases.clone()), 2000, 33_196, fixed()));
            parts.push(Part::new(pools::pattern_paren_pool(std.small_bases.clone()), 1000, usize::MAX, fixed()));
            parts.push(Part::new(pools::comment_pool(std.small_bases.clone()), 1500, 120_000, fixed()));
            parts.push(Part::new(pools::ws_pool(std.small_bases.clone()), 1000, 80_000, fixed()));
            let (mut acc, pm) = workload::run_parts(&parts, tier, seed, |_, case, _, acc| p_perf::run_case(case, &cfgs, acc));
            meta.pools = pm;
            // ladders (in-process, big stacks)
            let mut fams: Vec<usize> = (0..gen::NEST_FAMILIES_ALL).collect();
            let mut rng = Rng::new(seed ^ 0xC18);
            let n_mixed = if tier == Tier::Quick { 200 } else { 12_000 };
            for k in 0..n_mixed {
                fams.push(if k % 2 == 0 { 1000 + rng.below(1_000_000) } else { 2_000_000 + rng.below(1_000_000) });
            }
            let widths: Vec<usize> = if tier == Tier::Quick { vec![0, 80, fmtx::W_INF] } else { vec![0, 1, 8, 20, 40, 80, 120, fmtx::W_INF] };
            use rayon::prelude::*;
            let accs: Vec<Acc> = fams
                .par_iter()
                .map(|&f| {
                    let mut a = Acc::new();
                    let maxd = if f >= 1000 { 48 } else { 256 };
                    p_perf::run_ladder(f, &widths, maxd, &mut a);
                    a
                })
                .collect();
            for a in accs {
                acc.merge(a);
            }
            let wide_accs: Vec<Acc> = (0..gen::WIDE_FAMILIES)
                .into_par_iter()
                .map(|f| {
                    let mut a = Acc::new();
                    p_perf::run_wide(f, &widths, &mut a);
                    a
                })
                .collect();
            for a in wide_accs {
                acc.merge(a);
            }
            meta.assumptions = vec![
                "the hook counts entries into the four conversion entry points; K = 2 is twice the maximum ratio observed on the pinned tree".into(),
                "allocation and CPU monitors are secondary (bounds chosen ≥ 10× above the pre-sweep maxima)".into(),
            ];
            run_fixed_repros(prop, &mut acc);
            (meta, acc)
        }
        "C17" => {
            let std = Std::load();
            let mut meta = RunMeta::new(
                prop,
                tier.name(),
                "exploration",
                "items = (text, cfg) from the corpus plus 'twin' documents with identical tree shape and span numbering (multiline flavor flipped, directive disabled); reference = one fresh process per item; histories: same item ×100, shuffled sequential orders, 2..64 threads each walking its own permutation from a barrier with seeded yields (plain calls, a shared Source object, cloned Typstyle values, interleaved range calls), separate processes with varied environment/cwd; every call is logged (thread, item, seq in/out) and overlapping pairs are counted; evaluation = one call; distinct = (text,cfg); non-trivial = item was re-formatted in a shuffled history after other documents",
            );
            let mut rng = Rng::new(seed ^ 0xC17);
            let mut cases = std.snippets.clone();
            cases.extend(std.adversarial.clone());
            cases.extend(std.fixtures.iter().filter(|c| c.text.len() < 4000).cloned());
            let (n, threads, rounds, envn): (usize, Vec<usize>, usize, usize) =
                if tier == Tier::Quick { (800, vec![2, 4, 16], 3, 100) } else { (6000, vec![2, 3, 4, 8, 16, 64], 10, 1000) };
            let items = p_pure::build_items(&cases, n, &mut rng);
            let mut acc = Acc::new();
            p_pure::run(&items, &threads, rounds, seed, envn, &mut acc);
            p_pure::delivery_history(&mut acc, tier != Tier::Quick);
            meta.assumptions = vec![
                "a call has no internal synchronisation points, so interleavings are obtained by thread scheduling (barrier start, seeded yields between calls); data races are decided by the ThreadSanitizer / Miri tier of the thorough command".into(),
            ];
            (meta, acc)
        }
        "C02" => crate::p_world::run(tier),
        "C14" | "C15" | "C16" => crate::p_cli::run(prop, tier),
        _ => panic!("unknown property {}", prop),
    }
}

/// Fold the sanitizer tier's report (written by sanitizers.sh) into the run: every report is a violation,
/// what the sanitized runs observed goes into the evidence.
fn apply_sanitizer_report(prop: &str, meta: &mut RunMeta, acc: &mut Acc) {
    let Ok(path) = std::env::var("TYV_SANITIZER_REPORT") else { return };
    let Ok(txt) = std::fs::read_to_string(&path) else { return };
    let Ok(v) = serde_json::from_str::<serde_json::Value>(&txt) else { return };
    for t in v["tools"].as_array().cloned().unwrap_or_default() {
        let tool = t["tool"].as_str().unwrap_or("?").to_string();
        let build = t["build"].as_str().unwrap_or("?");
        let runs = t["runs"].as_u64().unwrap_or(0);
        let reports = t["reports"].as_u64().unwrap_or(0);
        meta.pools.push(serde_json::json!({"sanitizer": tool, "build": build, "runs": runs, "reports": reports, "observed": t["observed"]}));
        if build != "ok" {
            acc.inconclusive(&format!("sanitizer-{}-{}", tool, build));
            continue;
        }
        acc.count(&format!("sanitizer_runs[{}]", tool), runs);
        acc.evaluations += runs;
        if reports > 0 {
            acc.violations.push(Violation {
                property: prop.to_string(),
                input: format!("sanitized workload of {} ({})", prop, tool),
                cfg: None,
                origin: format!("sanitizers.sh {}", prop),
                oracle: format!("{}-report", tool),
                detail: format!("{} report(s): {}", reports, t["excerpt"].as_str().unwrap_or("")),
                extra: serde_json::Value::Null,
            });
        } else {
            acc.held += runs;
        }
    }
}

pub fn check(prop: &str, tier: Tier) -> i32 {
    let (mut meta, mut acc) = run(prop, tier);
    apply_sanitizer_report(prop, &mut meta, &mut acc);
    let floor = match (prop, tier) {
        ("C17", _) => 500,
        ("C14" | "C15" | "C16", _) => 100,
        ("C02", _) => 200,
        (_, Tier::Quick) => 2000,
        _ => 20_000,
    };
    report::finish(meta, acc, floor)
}

/// Reproducers of *fixed* findings are part of every run of their property: a regression is a violation.
pub fn run_fixed_repros(prop: &str, acc: &mut Acc) {
    let db = crate::findings::load();
    for f in db.iter().filter(|f| f.status == "fixed" && f.properties.iter().any(|p| p == prop)) {
        for r in &f.repros {
            if r["property"].as_str() != Some(prop) {
                continue;
            }
            let v = crate::props::violation_from_json(r);
            acc.evaluations += 1;
            match crate::props::violated(&v, &v.input.clone()) {
                Some(true) => {
                    let mut v = v.clone();
                    v.origin = format!("regression of fixed finding {}", f.id);
                    v.detail = format!("reproducer of fixed finding {} fails again: {}", f.id, f.what);
                    acc.violations.push(v);
                }
                Some(false) => {
                    acc.held += 1;
                    acc.count("fixed_finding_reproducers_held", 1);
                }
                None => acc.inconclusive("fixed-repro-inconclusive"),
            }
        }
    }
}
