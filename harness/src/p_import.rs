//! C19 — import items are reordered only on request, and then only permuted.

use serde_json::json;
use typst_syntax::{ast, SyntaxKind as K, SyntaxNode};

use crate::engine::{Acc, Case, Violation};
use crate::fmtx::{self, Cfg, FmtOut};
use crate::nf;
use crate::tree;
use crate::util;

#[derive(Debug, Clone)]
pub struct ImportInfo {
    /// normalised items in order
    pub items: Vec<String>,
    /// bound names (name() of a path item, new_name() of a renamed one)
    pub names: Vec<String>,
    pub has_comment: bool,
    /// everything of the import except its items, normalised
    pub rest: Vec<String>,
    /// byte range of the ModuleImport node
    pub range: (usize, usize),
    /// byte ranges of the item nodes
    pub item_ranges: Vec<(usize, usize)>,
}

fn contains_comment(n: &SyntaxNode) -> bool {
    tree::is_comment(n.kind()) || n.children().any(contains_comment)
}

fn item_tokens(n: &SyntaxNode) -> String {
    let mut v = vec![];
    tree::walk(n, &mut |x, _, _| {
        if x.children().len() == 0 && !tree::is_trivia(x.kind()) {
            v.push(format!("{:?}:{}", x.kind(), x.text()));
        }
    });
    v.join(" ")
}

pub fn imports(root: &SyntaxNode) -> Vec<ImportInfo> {
    let mut out = vec![];
    tree::walk(root, &mut |n, off, _| {
        if n.kind() != K::ModuleImport {
            return;
        }
        let mut info = ImportInfo {
            items: vec![],
            names: vec![],
            has_comment: contains_comment(n),
            rest: vec![],
            range: (off, off + n.len()),
            item_ranges: vec![],
        };
        let mut o = off;
        for c in n.children() {
            if c.kind() == K::ImportItems {
                let mut io = o;
                for it in c.children() {
                    match it.kind() {
                        K::ImportItemPath => {
                            info.items.push(item_tokens(it));
                            if let Some(p) = it.cast::<ast::ImportItemPath>() {
                                info.names.push(p.name().as_str().to_string());
                            }
                            info.item_ranges.push((io, io + it.len()));
                        }
                        K::RenamedImportItem => {
                            info.items.push(item_tokens(it));
                            if let Some(p) = it.cast::<ast::RenamedImportItem>() {
                                info.names.push(p.new_name().as_str().to_string());
                            }
                            info.item_ranges.push((io, io + it.len()));
                        }
                        _ => {}
                    }
                    io += it.len();
                }
            } else if !tree::is_trivia(c.kind()) && !matches!(c.kind(), K::LeftParen | K::RightParen | K::Comma) {
                info.rest.push(item_tokens(c));
            }
            o += c.len();
        }
        out.push(info);
    });
    out
}

fn blank_imports(text: &str, imps: &[ImportInfo]) -> String {
    let mut out = String::new();
    let mut last = 0;
    for i in imps {
        if i.range.0 < last {
            continue;
        }
        out.push_str(&text[last..i.range.0]);
        out.push_str("<IMPORT>");
        last = i.range.1;
    }
    out.push_str(&text[last..]);
    out
}

/// The text of an import statement with every item replaced by `§`.
fn skeleton(text: &str, i: &ImportInfo) -> String {
    let mut out = String::new();
    let mut last = i.range.0;
    for &(s, e) in &i.item_ranges {
        if s < last || e > i.range.1 {
            continue;
        }
        out.push_str(&text[last..s]);
        out.push('§');
        last = e;
    }
    out.push_str(&text[last..i.range.1]);
    out
}

fn has_dup(names: &[String]) -> bool {
    let mut s = std::collections::HashSet::new();
    names.iter().any(|n| !s.insert(n))
}

/// Returns Ok(Some(detail)) on violation, Ok(None) when held; nontrivial flag via out param.
pub fn check(x: &str, px: &SyntaxNode, width: usize, tab: usize, acc: &mut Acc, nontrivial: &mut bool) -> Result<Option<String>, &'static str> {
    let ix = imports(px);
    if ix.is_empty() {
        return Err("no-import");
    }
    let off = match fmtx::fmt(x, Cfg::new(width, tab, false)) {
        FmtOut::Ok(y) => y,
        FmtOut::Refused => return Err("refused"),
        FmtOut::Panic(_) => return Err("panic(see C05)"),
    };
    let on = match fmtx::fmt(x, Cfg::new(width, tab, true)) {
        FmtOut::Ok(y) => y,
        FmtOut::Refused => return Err("refused"),
        FmtOut::Panic(_) => return Err("panic(see C05)"),
    };
    acc.evaluations += 2;
    let (Some(poff), Some(pon)) = (tree::parse_ok(&off), tree::parse_ok(&on)) else {
        return Err("output-unparseable(see C04)");
    };
    let ioff = imports(&poff);
    let ion = imports(&pon);
    if ioff.len() != ix.len() || ion.len() != ix.len() {
        return Ok(Some(format!("number of import statements changed: {} -> off {} / on {}", ix.len(), ioff.len(), ion.len())));
    }
    acc.count("imports_compared", ix.len() as u64);
    for (k, ((a, b), c)) in ix.iter().zip(ioff.iter()).zip(ion.iter()).enumerate() {
        if a.items != b.items {
            return Ok(Some(format!("reorder off: import #{} items changed: {:?} -> {:?}", k, a.items, b.items)));
        }
        if a.rest != b.rest || a.rest != c.rest {
            return Ok(Some(format!("import #{}: non-item part changed: {:?} -> off {:?} / on {:?}", k, a.rest, b.rest, c.rest)));
        }
        let mut sa = a.items.clone();
        let mut sc = c.items.clone();
        sa.sort();
        sc.sort();
        if sa != sc {
            return Ok(Some(format!("reorder on: import #{} items are not a permutation of the source's: {:?} -> {:?}", k, a.items, c.items)));
        }
        let frozen = a.has_comment || has_dup(&a.names);
        if frozen {
            acc.count("imports_frozen(comment or duplicate name)", 1);
            if c.items != a.items {
                return Ok(Some(format!(
                    "reorder on: import #{} {} but its items were reordered: {:?} -> {:?}",
                    k,
                    if a.has_comment { "contains a comment" } else { "binds a name twice" },
                    a.items,
                    c.items
                )));
            }
        } else if a.items.len() >= 2 {
            if c.items != a.items {
                *nontrivial = true;
            }
        }
    }
    // … nor inside the import statements, once every item is replaced by a placeholder (blank lines, line breaks,
    // parentheses, trailing commas, alias keywords are all "something else")
    for (k, (b, c)) in ioff.iter().zip(ion.iter()).enumerate() {
        let sb = skeleton(&off, b);
        let sc = skeleton(&on, c);
        if sb != sc {
            return Ok(Some(format!(
                "import #{}: with reorder on the statement differs from reorder off in more than the order of its items: {:?} vs {:?}",
                k,
                util::clip(&sb, 100),
                util::clip(&sc, 100)
            )));
        }
    }
    acc.count("import_skeletons_compared", ioff.len() as u64);
    // nothing else differs between the two outputs
    let boff = blank_imports(&off, &ioff);
    let bon = blank_imports(&on, &ion);
    if boff != bon {
        return Ok(Some(format!(
            "outputs with reorder on/off differ outside import statements: {}",
            crate::treeprops::first_line_diff(&boff, &bon)
        )));
    }
    // canonical order: permuting the source items must not change the result (imports without comments/duplicates)
    for (k, a) in ix.iter().enumerate() {
        // an import reproduced verbatim under `@typstyle off` is not sorted at all
        if x.contains("@typstyle off") {
            break;
        }
        if a.has_comment || has_dup(&a.names) || a.items.len() < 2 || a.items.len() > 8 {
            continue;
        }
        // rebuild the source with this import's items reversed / rotated
        for variant in 0..2 {
            let mut order: Vec<usize> = (0..a.items.len()).collect();
            if variant == 0 {
                order.reverse();
            } else {
                order.rotate_left(1);
            }
            let mut x2 = String::new();
            let mut last = 0;
            for (slot, &src) in order.iter().enumerate() {
                let (s, e) = a.item_ranges[slot];
                let (ss, se) = a.item_ranges[src];
                x2.push_str(&x[last..s]);
                x2.push_str(&x[ss..se]);
                last = e;
            }
            x2.push_str(&x[last..]);
            if tree::parse_ok(&x2).is_none() {
                continue;
            }
            if let FmtOut::Ok(on2) = fmtx::fmt(&x2, Cfg::new(width, tab, true)) {
                acc.evaluations += 1;
                acc.count("permutation_twins_compared", 1);
                if let Some(p2) = tree::parse_ok(&on2) {
                    let i2 = imports(&p2);
                    if let Some(c2) = i2.get(k) {
                        if c2.items != ion[k].items {
                            return Ok(Some(format!(
                                "reorder on is not canonical: import #{} gives {:?}, but with the source items permuted it gives {:?}",
                                k, ion[k].items, c2.items
                            )));
                        }
                    }
                }
            }
        }
    }
    let _ = nf::first_diff;
    Ok(None)
}

pub fn run_case(case: &Case, cfgs: &[(usize, usize)], acc: &mut Acc) {
    let Some(px) = tree::parse_ok(&case.text) else {
        acc.inconclusive("input-erroneous");
        return;
    };
    let xh = util::hash64(&case.text);
    acc.distinct_inputs.insert(xh);
    for &(w, t) in cfgs {
        let mut nontrivial = false;
        match check(&case.text, &px, w, t, acc, &mut nontrivial) {
            Ok(None) => {
                acc.held += 1;
                if nontrivial {
                    acc.nontrivial.insert(xh);
                    if case.text.len() < 200 {
                        let on = fmtx::fmt(&case.text, Cfg::new(w, t, true));
                        acc.sample(json!({"input": case.text, "origin": case.origin, "width": w, "reordered_output": on.ok()}));
                    }
                }
            }
            Ok(Some(detail)) => {
                acc.nontrivial.insert(xh);
                acc.violations.push(Violation {
                    property: "C19".into(),
                    input: case.text.clone(),
                    cfg: Some(Cfg::new(w, t, true)),
                    origin: case.origin.clone(),
                    oracle: "import-items".into(),
                    detail,
                    extra: serde_json::Value::Null,
                });
            }
            Err(r) => {
                acc.inconclusive(r);
                if r == "no-import" {
                    return;
                }
            }
        }
    }
}

pub fn violated(input: &str, cfg: Cfg) -> Option<bool> {
    let px = tree::parse_ok(input)?;
    let mut acc = Acc::new();
    let mut nt = false;
    match check(input, &px, cfg.width, cfg.tab, &mut acc, &mut nt) {
        Ok(None) => Some(false),
        Ok(Some(_)) => Some(true),
        Err(_) => None,
    }
}
