//! C14 / C15 / C16 — the command line front-end, observed from outside: generated file trees, invocation
//! histories, an executable model of the CLI, before/after snapshots and a strace log of write-class syscalls.

use std::collections::BTreeMap;
use std::ffi::CString;
use std::os::unix::fs::{MetadataExt, PermissionsExt};
use std::path::{Path, PathBuf};
use std::process::{Command, Stdio};
use std::sync::atomic::{AtomicU64, Ordering};

use serde_json::{json, Value};

use crate::engine::{Acc, RunMeta, Violation};
use crate::fmtx::{self, Cfg, FmtOut};
use crate::util::{self, Rng};
use crate::workload::Tier;

pub const UNPRIV: u32 = 65534;

pub fn cli_bin() -> PathBuf {
    std::env::var("TYPSTYLE_BIN").map(PathBuf::from).unwrap_or_else(|_| util::verif_dir().join("target-cli/release/typstyle"))
}

// ------------------------------------------------------------------------------------------------
// scenarios

#[derive(Clone, Debug, PartialEq)]
pub enum Kind {
    File,
    Dir,
    Symlink(String),
}

#[derive(Clone, Debug)]
pub struct FileSpec {
    pub rel: String,
    pub kind: Kind,
    pub content: Vec<u8>,
    pub mode: u32,
    pub class: String,
}

#[derive(Clone, Debug)]
pub struct Step {
    pub args: Vec<String>,
    pub stdin: Option<String>,
    /// cwd relative to the tree root
    pub cwd: String,
}

#[derive(Clone, Debug)]
pub struct Scenario {
    pub files: Vec<FileSpec>,
    pub steps: Vec<Step>,
}

impl Scenario {
    pub fn to_json(&self) -> Value {
        json!({
            "files": self.files.iter().map(|f| json!({
                "rel": f.rel,
                "kind": match &f.kind { Kind::File => "file".to_string(), Kind::Dir => "dir".to_string(), Kind::Symlink(t) => format!("symlink:{}", t) },
                "content_hex": f.content.iter().map(|b| format!("{:02x}", b)).collect::<String>(),
                "content_preview": util::clip(&String::from_utf8_lossy(&f.content), 60),
                "mode": format!("{:o}", f.mode),
                "class": f.class,
            })).collect::<Vec<_>>(),
            "steps": self.steps.iter().map(|s| json!({"args": s.args, "stdin": s.stdin, "cwd": s.cwd})).collect::<Vec<_>>(),
        })
    }
    pub fn from_json(v: &Value) -> Option<Scenario> {
        let mut files = vec![];
        for f in v["files"].as_array()? {
            let k = f["kind"].as_str()?;
            let kind = if k == "file" {
                Kind::File
            } else if k == "dir" {
                Kind::Dir
            } else {
                Kind::Symlink(k.strip_prefix("symlink:")?.to_string())
            };
            let hex = f["content_hex"].as_str()?;
            let content: Vec<u8> = (0..hex.len() / 2).filter_map(|i| u8::from_str_radix(&hex[2 * i..2 * i + 2], 16).ok()).collect();
            files.push(FileSpec {
                rel: f["rel"].as_str()?.to_string(),
                kind,
                content,
                mode: u32::from_str_radix(f["mode"].as_str()?, 8).ok()?,
                class: f["class"].as_str().unwrap_or("").to_string(),
            });
        }
        let mut steps = vec![];
        for s in v["steps"].as_array()? {
            steps.push(Step {
                args: s["args"].as_array()?.iter().filter_map(|a| a.as_str().map(|x| x.to_string())).collect(),
                stdin: s["stdin"].as_str().map(|x| x.to_string()),
                cwd: s["cwd"].as_str().unwrap_or("").to_string(),
            });
        }
        Some(Scenario { files, steps })
    }
}

// ------------------------------------------------------------------------------------------------
// materialising a tree

static COUNTER: AtomicU64 = AtomicU64::new(0);

pub struct Sandbox {
    pub base: PathBuf,
    pub root: PathBuf,
}

impl Drop for Sandbox {
    fn drop(&mut self) {
        // restore permissions so that removal works
        fn fix(p: &Path) {
            if let Ok(md) = std::fs::symlink_metadata(p) {
                if md.is_dir() {
                    let _ = std::fs::set_permissions(p, std::fs::Permissions::from_mode(0o755));
                    if let Ok(rd) = std::fs::read_dir(p) {
                        for e in rd.flatten() {
                            fix(&e.path());
                        }
                    }
                }
            }
        }
        fix(&self.base);
        let _ = std::fs::remove_dir_all(&self.base);
    }
}

fn cpath(p: &Path) -> CString {
    CString::new(p.as_os_str().to_string_lossy().as_bytes()).unwrap()
}

fn lchown(p: &Path) {
    unsafe {
        libc::lchown(cpath(p).as_ptr(), UNPRIV, UNPRIV);
    }
}

fn set_mtime(p: &Path, secs: i64) {
    let ts = [libc::timespec { tv_sec: secs, tv_nsec: 123_456_789 }, libc::timespec { tv_sec: secs, tv_nsec: 123_456_789 }];
    unsafe {
        libc::utimensat(libc::AT_FDCWD, cpath(p).as_ptr(), ts.as_ptr(), libc::AT_SYMLINK_NOFOLLOW);
    }
}

pub fn materialise(sc: &Scenario) -> Option<Sandbox> {
    let n = COUNTER.fetch_add(1, Ordering::SeqCst);
    let base = std::env::temp_dir().join(format!("tyvcli-{}-{}", std::process::id(), n));
    let _ = std::fs::remove_dir_all(&base);
    let root = base.join("proj");
    std::fs::create_dir_all(&root).ok()?;
    // parents first
    let mut files = sc.files.clone();
    files.sort_by_key(|f| f.rel.matches('/').count());
    for f in &files {
        let p = root.join(&f.rel);
        if let Some(parent) = p.parent() {
            std::fs::create_dir_all(parent).ok()?;
        }
        match &f.kind {
            Kind::Dir => {
                std::fs::create_dir_all(&p).ok()?;
            }
            Kind::File => {
                std::fs::write(&p, &f.content).ok()?;
            }
            Kind::Symlink(t) => {
                std::os::unix::fs::symlink(t, &p).ok()?;
            }
        }
    }
    // ownership, mtimes, modes (modes last, children before parents)
    fn walk(p: &Path, f: &mut dyn FnMut(&Path)) {
        f(p);
        if let Ok(md) = std::fs::symlink_metadata(p) {
            if md.is_dir() {
                if let Ok(rd) = std::fs::read_dir(p) {
                    for e in rd.flatten() {
                        walk(&e.path(), f);
                    }
                }
            }
        }
    }
    let mut k = 0i64;
    walk(&base, &mut |p| {
        lchown(p);
        k += 1;
        set_mtime(p, 1_500_000_000 + k * 1000);
    });
    files.sort_by_key(|f| std::cmp::Reverse(f.rel.matches('/').count()));
    for f in &files {
        if matches!(f.kind, Kind::Symlink(_)) {
            continue;
        }
        let p = root.join(&f.rel);
        let _ = std::fs::set_permissions(&p, std::fs::Permissions::from_mode(f.mode));
    }
    Some(Sandbox { base, root })
}

// ------------------------------------------------------------------------------------------------
// snapshots

#[derive(Clone, Debug, PartialEq)]
pub struct Entry {
    pub mode: u32,
    pub ino: u64,
    pub mtime_ns: i128,
    pub content: Option<Vec<u8>>,
    pub link: Option<String>,
}

pub fn snapshot(root: &Path) -> BTreeMap<String, Entry> {
    let mut out = BTreeMap::new();
    fn rec(root: &Path, p: &Path, out: &mut BTreeMap<String, Entry>) {
        let Ok(md) = std::fs::symlink_metadata(p) else { return };
        let rel = p.strip_prefix(root).unwrap_or(p).to_string_lossy().to_string();
        let ft = md.file_type();
        let e = Entry {
            mode: md.mode(),
            ino: md.ino(),
            mtime_ns: md.mtime() as i128 * 1_000_000_000 + md.mtime_nsec() as i128,
            content: if ft.is_file() { std::fs::read(p).ok() } else { None },
            link: if ft.is_symlink() { std::fs::read_link(p).ok().map(|t| t.to_string_lossy().to_string()) } else { None },
        };
        out.insert(rel, e);
        if ft.is_dir() {
            // root can read everything
            if let Ok(rd) = std::fs::read_dir(p) {
                let mut v: Vec<_> = rd.flatten().map(|e| e.path()).collect();
                v.sort();
                for c in v {
                    rec(root, &c, out);
                }
            }
        }
    }
    rec(root, root, &mut out);
    out
}

// ------------------------------------------------------------------------------------------------
// running the CLI under strace as an unprivileged user

pub struct RunResult {
    pub code: Option<i32>,
    pub stdout: Vec<u8>,
    pub stderr: Vec<u8>,
    /// write-class syscalls that touched a path under the tree root
    pub tree_writes: Vec<String>,
    pub syscalls_logged: u64,
    pub strace_ok: bool,
}

const TRACE: &str = "trace=openat,open,creat,rename,renameat,renameat2,unlink,unlinkat,truncate,ftruncate,utimensat,utime,utimes,futimesat,chmod,fchmod,fchmodat,chown,fchown,lchown,fchownat,mkdir,mkdirat,rmdir,link,linkat,symlink,symlinkat,mknod,mknodat,setxattr,lsetxattr,fsetxattr";

pub fn run_cli(sb: &Sandbox, step: &Step, use_strace: bool) -> RunResult {
    let cwd = if step.cwd.is_empty() { sb.root.clone() } else { sb.root.join(&step.cwd) };
    let log = sb.base.join("strace.log");
    let _ = std::fs::remove_file(&log);
    let mut cmd;
    if use_strace {
        cmd = Command::new("strace");
        cmd.args(["-f", "-qq", "-o"]).arg(&log).args(["-e", TRACE]);
        cmd.args(["setpriv", "--reuid=65534", "--regid=65534", "--clear-groups"]);
    } else {
        cmd = Command::new("setpriv");
        cmd.args(["--reuid=65534", "--regid=65534", "--clear-groups"]);
    }
    cmd.arg(cli_bin());
    cmd.args(&step.args);
    cmd.current_dir(&cwd);
    cmd.env_clear();
    cmd.env("PATH", "/usr/bin:/bin");
    cmd.env("NO_COLOR", "1");
    cmd.env("HOME", "/nonexistent");
    cmd.stdin(if step.stdin.is_some() { Stdio::piped() } else { Stdio::null() });
    cmd.stdout(Stdio::piped());
    cmd.stderr(Stdio::piped());
    let Ok(mut child) = cmd.spawn() else {
        return RunResult { code: None, stdout: vec![], stderr: b"spawn failed".to_vec(), tree_writes: vec![], syscalls_logged: 0, strace_ok: false };
    };
    if let Some(s) = &step.stdin {
        use std::io::Write;
        let mut si = child.stdin.take().unwrap();
        let data = s.clone().into_bytes();
        // write from a thread: large inputs would otherwise deadlock against a full stdout pipe
        std::thread::spawn(move || {
            let _ = si.write_all(&data);
        });
    }
    let out = match child.wait_with_output() {
        Ok(o) => o,
        Err(_) => return RunResult { code: None, stdout: vec![], stderr: b"wait failed".to_vec(), tree_writes: vec![], syscalls_logged: 0, strace_ok: false },
    };
    let mut tree_writes = vec![];
    let mut n = 0u64;
    let mut strace_ok = !use_strace;
    if use_strace {
        if let Ok(logtxt) = std::fs::read_to_string(&log) {
            strace_ok = true;
            let root_s = sb.root.to_string_lossy().to_string();
            for line in logtxt.lines() {
                n += 1;
                if is_tree_write(line, &root_s, &cwd) {
                    tree_writes.push(util::clip(line, 200));
                }
            }
        }
    }
    RunResult { code: out.status.code(), stdout: out.stdout, stderr: out.stderr, tree_writes, syscalls_logged: n, strace_ok }
}

/// Does this strace line denote a write-class operation on a path under the tree root?
fn is_tree_write(line: &str, root: &str, cwd: &Path) -> bool {
    // strip pid
    let l = line.trim_start_matches(|c: char| c.is_ascii_digit()).trim_start();
    let Some(paren) = l.find('(') else { return false };
    let name = &l[..paren];
    let args = &l[paren + 1..];
    // all quoted strings are candidate paths
    let mut paths = vec![];
    let mut rest = args;
    while let Some(a) = rest.find('"') {
        let after = &rest[a + 1..];
        let Some(b) = after.find('"') else { break };
        paths.push(&after[..b]);
        rest = &after[b + 1..];
    }
    let touches_tree = paths.iter().any(|p| {
        let abs = if p.starts_with('/') { PathBuf::from(p) } else { cwd.join(p) };
        let s = abs.to_string_lossy().to_string();
        // normalise "./" and "../" cheaply
        let mut parts: Vec<&str> = vec![];
        for comp in s.split('/') {
            match comp {
                "" | "." => {}
                ".." => {
                    parts.pop();
                }
                c => parts.push(c),
            }
        }
        let norm = format!("/{}", parts.join("/"));
        norm == root || norm.starts_with(&format!("{}/", root))
    });
    if !touches_tree {
        return false;
    }
    // a failed attempt changed nothing (e.g. EACCES on an unwritable target is the expected way to find out)
    if l.contains(") = -1 E") {
        return false;
    }
    match name {
        "openat" | "open" => {
            args.contains("O_WRONLY") || args.contains("O_RDWR") || args.contains("O_CREAT") || args.contains("O_TRUNC") || args.contains("O_APPEND")
        }
        _ => true,
    }
}

// ------------------------------------------------------------------------------------------------
// the executable model of the CLI

#[derive(Clone, Debug)]
pub struct ModelFile {
    pub kind: Kind,
    pub content: Vec<u8>,
    pub mode: u32,
}

#[derive(Clone, Debug, Default)]
pub struct Expect {
    pub exit: i32,
    /// files that must have exactly this content afterwards and a changed mtime
    pub written: BTreeMap<String, Vec<u8>>,
    /// exact stdout (only for stdout-printing modes without logging)
    pub stdout: Option<Vec<u8>>,
    /// model could not decide (outside the statement): reason
    pub dont_know: Option<String>,
    /// files that were processed and found changed (for evidence)
    pub changed: usize,
    /// names through which a write may legitimately happen (symlinks named on the command line)
    pub written_via: Vec<String>,
    /// eligible files of a format-all run that cannot be read (finding F14)
    pub read_failures_in_format_all: usize,
    /// every reason for a non-zero status in the model is such a read failure
    pub only_read_failures: bool,
    /// inputs the model read successfully, in processing order (root-relative; "<stdin>" for standard input)
    pub considered: Vec<String>,
    /// inputs whose reading / writing fails in the model
    pub errors: usize,
}

pub struct Parsed {
    pub check: bool,
    pub inplace: bool,
    pub format_all: bool,
    pub dir: Option<String>,
    pub inputs: Vec<String>,
    pub cfg: Cfg,
    pub quiet: bool,
}

pub fn parse_args(args: &[String]) -> Parsed {
    let mut p = Parsed { check: false, inplace: false, format_all: false, dir: None, inputs: vec![], cfg: Cfg::new(80, 2, false), quiet: false };
    let mut i = 0;
    let mut positional = vec![];
    while i < args.len() {
        let a = args[i].as_str();
        match a {
            "--check" => p.check = true,
            "-i" | "--inplace" => p.inplace = true,
            "-q" | "--quiet" => p.quiet = true,
            "--reorder-import-items" => p.cfg.reorder = true,
            "-c" | "--column" => {
                i += 1;
                p.cfg.width = args[i].parse().unwrap();
            }
            "-t" | "--tab-width" => {
                i += 1;
                p.cfg.tab = args[i].parse().unwrap();
            }
            "format-all" if !p.format_all && positional.is_empty() => p.format_all = true,
            _ => {
                if let Some(v) = a.strip_prefix("--column=") {
                    p.cfg.width = v.parse().unwrap();
                } else if let Some(v) = a.strip_prefix("--tab-width=") {
                    p.cfg.tab = v.parse().unwrap();
                } else if let Some(v) = a.strip_prefix("-c") {
                    p.cfg.width = v.parse().unwrap();
                } else if let Some(v) = a.strip_prefix("-t") {
                    p.cfg.tab = v.parse().unwrap();
                } else {
                    positional.push(a.to_string());
                }
            }
        }
        i += 1;
    }
    if p.format_all {
        p.dir = positional.first().cloned();
    } else {
        p.inputs = positional;
    }
    p
}

fn norm_rel(cwd: &str, p: &str) -> Option<String> {
    // resolve `p` (relative to cwd, which is relative to the root) to a root-relative path
    let mut parts: Vec<String> = if cwd.is_empty() { vec![] } else { cwd.split('/').map(|s| s.to_string()).collect() };
    for comp in p.split('/') {
        match comp {
            "" | "." => {}
            ".." => {
                parts.pop()?;
            }
            c => parts.push(c.to_string()),
        }
    }
    Some(parts.join("/"))
}

enum ReadResult {
    Ok(String),
    Fail,
}

/// Can the unprivileged user traverse to and read this path?
fn model_read(state: &BTreeMap<String, ModelFile>, rel: &str) -> ReadResult {
    // every ancestor directory needs x
    let comps: Vec<&str> = rel.split('/').collect();
    for k in 1..comps.len() {
        let anc = comps[..k].join("/");
        match state.get(&anc) {
            Some(d) if d.kind == Kind::Dir => {
                if d.mode & 0o100 == 0 {
                    return ReadResult::Fail;
                }
            }
            Some(_) => return ReadResult::Fail,
            None => {}
        }
    }
    let mut cur = rel.to_string();
    for _ in 0..4 {
        match state.get(&cur) {
            None => return ReadResult::Fail,
            Some(f) => match &f.kind {
                Kind::Dir => return ReadResult::Fail,
                Kind::Symlink(t) => {
                    let parent = cur.rsplit_once('/').map(|x| x.0).unwrap_or("");
                    match norm_rel(parent, t) {
                        Some(n) => cur = n,
                        None => return ReadResult::Fail,
                    }
                }
                Kind::File => {
                    if f.mode & 0o400 == 0 {
                        return ReadResult::Fail;
                    }
                    return match String::from_utf8(f.content.clone()) {
                        Ok(s) => ReadResult::Ok(s),
                        Err(_) => ReadResult::Fail,
                    };
                }
            },
        }
    }
    ReadResult::Fail
}

fn resolve_target(state: &BTreeMap<String, ModelFile>, rel: &str) -> Option<String> {
    let mut cur = rel.to_string();
    for _ in 0..4 {
        match state.get(&cur)? {
            ModelFile { kind: Kind::Symlink(t), .. } => {
                let parent = cur.rsplit_once('/').map(|x| x.0).unwrap_or("");
                cur = norm_rel(parent, t)?;
            }
            _ => return Some(cur),
        }
    }
    None
}

fn model_writable(state: &BTreeMap<String, ModelFile>, rel: &str) -> bool {
    resolve_target(state, rel).and_then(|t| state.get(&t).map(|f| f.kind == Kind::File && f.mode & 0o200 != 0)).unwrap_or(false)
}

fn is_hidden_name(n: &str) -> bool {
    n.starts_with('.')
}

fn extension_is_typ(name: &str) -> bool {
    // std::path::Path::extension semantics
    Path::new(name).extension().map(|e| e == "typ").unwrap_or(false)
}

pub fn model_step(state: &BTreeMap<String, ModelFile>, step: &Step) -> Expect {
    let p = parse_args(&step.args);
    let mut ex = Expect::default();
    let mut errors = 0;
    let mut changed = 0;
    let mut stdout: Vec<u8> = vec![];
    let lib = |text: &str| -> Option<Option<String>> {
        match fmtx::fmt(text, p.cfg) {
            FmtOut::Ok(y) => Some(Some(y)),
            FmtOut::Refused => Some(None),
            FmtOut::Panic(_) => None,
        }
    };
    if p.format_all {
        let dir = match &p.dir {
            Some(d) => norm_rel(&step.cwd, d),
            None => Some(step.cwd.clone()),
        };
        let Some(dir) = dir else {
            ex.dont_know = Some("directory outside the generated tree".into());
            return ex;
        };
        if !dir.is_empty() && !matches!(state.get(&dir), Some(ModelFile { kind: Kind::Dir, .. })) {
            ex.dont_know = Some("format-all root is not a directory of the tree".into());
            return ex;
        }
        // eligible files below dir
        let prefix = if dir.is_empty() { String::new() } else { format!("{}/", dir) };
        'files: for (rel, f) in state.iter() {
            if !rel.starts_with(&prefix) || rel == &dir {
                continue;
            }
            if f.kind != Kind::File {
                continue;
            }
            let below = &rel[prefix.len()..];
            let comps: Vec<&str> = below.split('/').collect();
            if comps.iter().any(|c| is_hidden_name(c)) {
                continue;
            }
            if !extension_is_typ(comps.last().unwrap()) {
                continue;
            }
            // directories on the way must be listable/traversable, and not symlinks (walkdir does not follow)
            for k in 0..comps.len() {
                let anc = if k == 0 { dir.clone() } else { format!("{}{}", prefix, comps[..k].join("/")) };
                if anc.is_empty() {
                    continue;
                }
                match state.get(&anc) {
                    Some(d) if d.kind == Kind::Dir => {
                        if d.mode & 0o500 != 0o500 {
                            continue 'files; // unreadable directory: its contents only have to be left alone
                        }
                    }
                    _ => continue 'files,
                }
            }
            match model_read(state, rel) {
                ReadResult::Fail => {
                    // the statement counts an I/O error as a failure that must show in the exit status
                    // (the tree skips such files silently: finding F14, attributed by its classifier)
                    errors += 1;
                    ex.read_failures_in_format_all += 1;
                    continue;
                }
                ReadResult::Ok(text) => match lib(&text) {
                    None => {
                        ex.dont_know = Some("library panicked".into());
                    }
                    Some(None) => ex.considered.push(rel.clone()),
                    Some(Some(y)) => {
                        ex.considered.push(rel.clone());
                        if y != text {
                            changed += 1;
                            if !p.check {
                                if model_writable(state, rel) {
                                    ex.written.insert(rel.clone(), y.into_bytes());
                                } else {
                                    errors += 1;
                                }
                            }
                        }
                    }
                },
            }
        }
        ex.stdout = None;
    } else if p.inputs.is_empty() {
        // stdin
        let text = step.stdin.clone().unwrap_or_default();
        ex.considered.push("<stdin>".into());
        match lib(&text) {
            None => ex.dont_know = Some("library panicked".into()),
            Some(None) => {
                if !p.check && !p.inplace {
                    stdout.extend(text.as_bytes());
                }
            }
            Some(Some(y)) => {
                if y != text {
                    changed += 1;
                }
                if !p.check && !p.inplace {
                    stdout.extend(y.as_bytes());
                }
            }
        }
        ex.stdout = Some(stdout.clone());
    } else {
        // a later file of the same invocation sees what an earlier one wrote
        let mut st = state.clone();
        for inp in &p.inputs {
            let Some(rel) = norm_rel(&step.cwd, inp) else {
                ex.dont_know = Some("input outside the generated tree".into());
                return ex;
            };
            match model_read(&st, &rel) {
                ReadResult::Fail => errors += 1,
                ReadResult::Ok(text) => match lib(&{
                    ex.considered.push(rel.clone());
                    text.clone()
                }) {
                    None => ex.dont_know = Some("library panicked".into()),
                    Some(None) => {
                        if !p.check && !p.inplace {
                            stdout.extend(text.as_bytes());
                        }
                    }
                    Some(Some(y)) => {
                        let is_changed = y != text;
                        if is_changed {
                            changed += 1;
                        }
                        if p.inplace {
                            if is_changed {
                                if model_writable(&st, &rel) {
                                    let target = resolve_target(&st, &rel).unwrap();
                                    st.get_mut(&target).unwrap().content = y.clone().into_bytes();
                                    ex.written.insert(target, y.into_bytes());
                                    ex.written_via.push(rel.clone());
                                } else {
                                    errors += 1;
                                }
                            }
                        } else if !p.check {
                            stdout.extend(y.as_bytes());
                        }
                    }
                },
            }
        }
        // in check mode "Would reformat" lines go to stdout, so only the plain mode has exact stdout
        ex.stdout = if !p.check && !p.inplace { Some(stdout.clone()) } else { None };
    }
    ex.changed = changed;
    ex.errors = errors;
    ex.only_read_failures = errors > 0 && errors == ex.read_failures_in_format_all && !(p.check && changed > 0);
    ex.exit = if errors > 0 {
        1
    } else if p.check && changed > 0 {
        1
    } else {
        0
    };
    ex
}

// ------------------------------------------------------------------------------------------------
// running a scenario against the model

pub struct Outcome {
    pub violations: Vec<(String, String)>, // (oracle, detail)
    pub steps_run: usize,
    pub syscalls: u64,
    pub dont_know: Vec<String>,
    pub files_written: usize,
    pub files_checked_untouched: usize,
    /// inputs whose check status was compared with the front-end's own plain output
    pub self_judged: usize,
}

fn has_marker(hay: &[u8]) -> Option<String> {
    let s = String::from_utf8_lossy(hay);
    s.find("MARKER").map(|i| util::clip(&s[i..], 30))
}

pub fn run_scenario(sc: &Scenario, prop: &str, use_strace: bool) -> Option<Outcome> {
    let sb = materialise(sc)?;
    let mut state: BTreeMap<String, ModelFile> = BTreeMap::new();
    for f in &sc.files {
        state.insert(f.rel.clone(), ModelFile { kind: f.kind.clone(), content: f.content.clone(), mode: f.mode });
    }
    // implied parent directories
    let rels: Vec<String> = state.keys().cloned().collect();
    for r in rels {
        let comps: Vec<&str> = r.split('/').collect();
        for k in 1..comps.len() {
            let anc = comps[..k].join("/");
            state.entry(anc).or_insert(ModelFile { kind: Kind::Dir, content: vec![], mode: 0o755 });
        }
    }
    let mut out = Outcome { violations: vec![], steps_run: 0, syscalls: 0, dont_know: vec![], files_written: 0, files_checked_untouched: 0, self_judged: 0 };
    for (si, step) in sc.steps.iter().enumerate() {
        let before = snapshot(&sb.root);
        let ex = model_step(&state, step);
        let res = run_cli(&sb, step, use_strace);
        let after = snapshot(&sb.root);
        out.steps_run += 1;
        out.syscalls += res.syscalls_logged;
        if res.code.is_none() || !res.strace_ok {
            return None; // harness trouble: inconclusive
        }
        let p = parse_args(&step.args);
        let tag = format!("step {} `typstyle {}`{}", si, step.args.join(" "), if step.stdin.is_some() { " <stdin" } else { "" });
        if let Some(r) = &ex.dont_know {
            out.dont_know.push(r.clone());
        }
        // --- file effects
        let mut expected_after = before.clone();
        for (rel, bytes) in &ex.written {
            if let Some(e) = expected_after.get_mut(rel) {
                e.content = Some(bytes.clone());
            }
        }
        for (rel, b) in &before {
            let a = after.get(rel);
            let Some(a) = a else {
                out.violations.push(("files".into(), format!("{}: {} disappeared", tag, rel)));
                continue;
            };
            let want = &expected_after[rel];
            if ex.written.contains_key(rel) {
                out.files_written += 1;
                if a.content != want.content {
                    out.violations.push((
                        "written-bytes".into(),
                        format!(
                            "{}: {} should now hold exactly the library's output for these options ({} bytes) but holds {:?}",
                            tag,
                            rel,
                            want.content.as_ref().map(|c| c.len()).unwrap_or(0),
                            util::clip(&String::from_utf8_lossy(a.content.as_deref().unwrap_or(b"")), 80)
                        ),
                    ));
                }
            } else {
                out.files_checked_untouched += 1;
                if a.content != b.content {
                    out.violations.push((
                        "untouched-bytes".into(),
                        format!("{}: content of {} changed although it is not an eligible, readable, well-formed, unformatted target", tag, rel),
                    ));
                } else if a.mtime_ns != b.mtime_ns && a.content.is_some() {
                    out.violations.push(("untouched-mtime".into(), format!("{}: modification time of {} changed although its content must stay", tag, rel)));
                } else if a.mode != b.mode || (a.ino != b.ino) {
                    out.violations.push(("untouched-meta".into(), format!("{}: inode/mode of {} changed", tag, rel)));
                }
            }
        }
        for rel in after.keys() {
            if !before.contains_key(rel) {
                out.violations.push(("files".into(), format!("{}: new path {} appeared in the tree", tag, rel)));
            }
        }
        // --- strace: write-class syscalls only on files the model expects to be written
        if use_strace {
            for w in &res.tree_writes {
                let ok = ex
                    .written
                    .keys()
                    .chain(ex.written_via.iter())
                    .any(|rel| w.contains(&format!("{}\"", rel)) || w.contains(rel.rsplit('/').next().unwrap_or(rel)));
                if !ok || p.check {
                    out.violations.push((
                        if p.check { "check-readonly-syscalls".into() } else { "unexpected-write-syscall".into() },
                        format!("{}: write-class syscall on the tree: {}", tag, w),
                    ));
                }
            }
        }
        // --- stdout
        if p.check || p.inplace || p.format_all {
            if let Some(m) = has_marker(&res.stdout) {
                out.violations.push(("no-formatted-text-on-stdout".into(), format!("{}: file content printed on stdout ({:?})", tag, m)));
            }
        }
        if prop == "C16" || prop == "C15" || prop == "C14" {
            if let Some(want) = &ex.stdout {
                if &res.stdout != want && ex.dont_know.is_none() {
                    out.violations.push((
                        "stdout-equals-library".into(),
                        format!(
                            "{}: stdout differs from the library's result: {}",
                            tag,
                            crate::treeprops::first_line_diff(&String::from_utf8_lossy(want), &String::from_utf8_lossy(&res.stdout))
                        ),
                    ));
                }
            }
        }
        // --- exit status
        if ex.dont_know.is_none() && res.code != Some(ex.exit) {
            out.violations.push((
                "exit-status".into(),
                format!(
                    "{}: exit status {:?}, model says {} ({} changed input(s), {} unreadable/non-UTF-8 eligible file(s) in the format-all tree{}); stderr: {:?}",
                    tag,
                    res.code,
                    ex.exit,
                    ex.changed,
                    ex.read_failures_in_format_all,
                    if ex.only_read_failures { ", which are the model's only reason for a non-zero status" } else { "" },
                    util::clip(&String::from_utf8_lossy(&res.stderr), 160)
                ),
            ));
        }
        // --- check mode against the front-end's own output: "differs from its formatted form" decided by what the same
        // binary prints for the same input and style options (no library in this oracle)
        if prop == "C14" && p.check && ex.dont_know.is_none() && res.code.is_some() {
            let mut style: Vec<String> = vec!["-c".into(), p.cfg.width.to_string(), "-t".into(), p.cfg.tab.to_string()];
            if p.cfg.reorder {
                style.push("--reorder-import-items".into());
            }
            let mut differs = 0usize;
            let mut judged = 0usize;
            let mut harness_trouble = false;
            for rel in &ex.considered {
                let (plain, content): (Step, Vec<u8>) = if rel == "<stdin>" {
                    let t = step.stdin.clone().unwrap_or_default();
                    (Step { args: style.clone(), stdin: Some(t.clone()), cwd: String::new() }, t.into_bytes())
                } else {
                    let Some(c) = before.get(rel).and_then(|e| e.content.clone()).or_else(|| std::fs::read(sb.root.join(rel)).ok()) else { continue };
                    let mut a = style.clone();
                    a.push(rel.clone());
                    (Step { args: a, stdin: None, cwd: String::new() }, c)
                };
                let r2 = run_cli(&sb, &plain, false);
                if r2.code != Some(0) {
                    harness_trouble = true;
                    break;
                }
                judged += 1;
                if r2.stdout != content {
                    differs += 1;
                }
            }
            if !harness_trouble {
                out.self_judged += judged;
                let want = if ex.errors > 0 || differs > 0 { 1 } else { 0 };
                if res.code != Some(want) && !(ex.read_failures_in_format_all > 0) {
                    out.violations.push((
                        "check-status-vs-own-output".into(),
                        format!(
                            "{}: exit status {:?}, but the same binary without --check prints text that differs from {} of the {} readable input(s) ({} input(s) fail to read): expected {}",
                            tag, res.code, differs, judged, ex.errors, want
                        ),
                    ));
                }
            }
        }
        // advance the model with what really is on disk (so that one violation is reported once)
        for (rel, a) in &after {
            if let Some(m) = state.get_mut(rel) {
                if let Some(c) = &a.content {
                    m.content = c.clone();
                }
            }
        }
        if !out.violations.is_empty() {
            break;
        }
    }
    Some(out)
}

// ------------------------------------------------------------------------------------------------
// generators

fn marker(rng: &mut Rng) -> String {
    format!("MARKER{:06x}", rng.below(0xffffff))
}

/// Bodies by class. Every body carries a unique marker word.
fn body(class: &str, rng: &mut Rng) -> Vec<u8> {
    let m = marker(rng);
    match class {
        "formatted" => {
            let t = format!("#let {} = 1\n\nText {} here.\n", m.to_lowercase(), m);
            t.into_bytes()
        }
        "formatted-nofinalnl-unformatted" => format!("Text {} here.", m).into_bytes(),
        "unformatted" => {
            let v = rng.below(6);
            match v {
                0 => format!("#let   x{}   =   (1,2,  3)\nText {} here.\n", rng.below(9), m),
                1 => format!("#f(a,b,\n  c)[{}]\n", m),
                2 => format!("= Heading {}\n#import \"a.typ\": zeta, alpha, mid\n#let f(x)={{x+1}}\n", m),
                3 => format!("$ a+b   {} $\n#table(columns:2,[a],[b],[c],[{}])\n", m.to_lowercase(), m),
                4 => format!("#let long = some_function(argument_one, argument_two, argument_three, argument_four, \"{}\")\n", m),
                _ => format!("- item {}\n   - nested   #g( 1 )\n", m),
            }
            .into_bytes()
        }
        "erroneous" => format!("#let x = (1, 2\nText {} here #f(.\n", m).into_bytes(),
        "invalid-utf8" => {
            let mut v = format!("#let   y = 2 // {}\n", m).into_bytes();
            v.extend([0xff, 0xfe, 0x80]);
            v.extend(b"\n");
            v
        }
        "crlf" => format!("#let   z =  3\r\nText {} here.\r\n", m).into_bytes(),
        // differs from its formatted form only in line terminators
        "formatted-crlf" => format!("#let {} = 1\r\n\r\nText {} here.\r\n", m.to_lowercase(), m).into_bytes(),
        // already formatted, except that the import items are not sorted: changed iff --reorder-import-items is given
        "formatted-unsorted-imports" => format!("#import \"lib.typ\": zeta, alpha, mid\n\nText {} here.\n", m).into_bytes(),
        // a byte order mark in front of otherwise formatted / unformatted text (text for the parser)
        "bom-formatted" => format!("{}Text {} here.\n\n#let {} = 1\n", '\u{feff}', m, m.to_lowercase()).into_bytes(),
        "bom-unformatted" => format!("{}#let   {}   =  1\nText {} here.\n", '\u{feff}', m.to_lowercase(), m).into_bytes(),
        // blank-only documents (the formatter's smallest outputs)
        "blank-only" => (*rng.pick(&["\n", "  ", "\t\n", " \n", "\n\n", " \n \n"])).as_bytes().to_vec(),
        "empty" => vec![],
        _ => format!("plain {} content   with   spaces\n", m).into_bytes(),
    }
}

const CLASSES: [&str; 17] = ["bom-formatted", "bom-unformatted", "formatted", "unformatted", "unformatted", "erroneous", "invalid-utf8", "unreadable", "unwritable", "crlf", "empty", "formatted-nofinalnl-unformatted", "formatted-crlf", "formatted-nofinalnl-unformatted", "formatted-unsorted-imports", "formatted-unsorted-imports", "blank-only"];

fn style_args(rng: &mut Rng) -> Vec<String> {
    let mut v = vec![];
    if rng.chance(1, 2) {
        let w = *rng.pick(&[0usize, 1, 20, 40, 60, 80, 100, 120, 400]);
        match rng.below(3) {
            0 => v.extend(["-c".to_string(), w.to_string()]),
            1 => v.extend(["--column".to_string(), w.to_string()]),
            _ => v.push(format!("--column={}", w)),
        }
    }
    if rng.chance(1, 3) {
        let t = *rng.pick(&[0usize, 1, 2, 3, 4, 8, 16]);
        match rng.below(2) {
            0 => v.extend(["-t".to_string(), t.to_string()]),
            _ => v.extend(["--tab-width".to_string(), t.to_string()]),
        }
    }
    if rng.chance(1, 4) {
        v.push("--reorder-import-items".to_string());
    }
    v
}

fn file_spec(rel: &str, class: &str, rng: &mut Rng) -> FileSpec {
    let (content_class, mode) = match class {
        "unreadable" => ("unformatted", 0o000),
        "unwritable" => ("unformatted", 0o444),
        c => (c, 0o644),
    };
    FileSpec { rel: rel.to_string(), kind: Kind::File, content: body(content_class, rng), mode, class: class.to_string() }
}

/// A tree for format-all style scenarios.
pub fn gen_tree(rng: &mut Rng) -> Vec<FileSpec> {
    let mut files = vec![];
    let dirs = ["", "sub", "sub/deep", "sub/deep/er", ".hidden", "sub/.git", "docs.d", "sub/deep/.cache/x", "other", ".hidden/inner"];
    let names = ["a.typ", "b.typ", "main.typ", "a.b.typ", "notes.txt", "README.md", ".secret.typ", "c.typ.bak", "UPPER.TYP", "typ", ".typ", "d.typ"];
    let n = 3 + rng.below(10);
    let mut used = std::collections::HashSet::new();
    for _ in 0..n {
        let d = *rng.pick(&dirs);
        let name = *rng.pick(&names);
        let rel = if d.is_empty() { name.to_string() } else { format!("{}/{}", d, name) };
        if !used.insert(rel.clone()) {
            continue;
        }
        let class = *rng.pick(&CLASSES);
        files.push(file_spec(&rel, class, rng));
    }
    // symlinks named *.typ: to an eligible file, and to files that are NOT eligible themselves
    // (hidden, non-.typ, in a hidden directory, outside the sub-directory that format-all is pointed at)
    if rng.chance(1, 2) {
        let n_links = 1 + rng.below(2);
        for li in 0..n_links {
            let regular: Vec<String> = files.iter().filter(|f| f.kind == Kind::File && !f.rel.starts_with("locked")).map(|f| f.rel.clone()).collect();
            if regular.is_empty() {
                break;
            }
            let target = regular[rng.below(regular.len())].clone();
            let link_dir = *rng.pick(&["", "sub", "other", "sub/deep", "docs.d"]);
            let link_rel = if link_dir.is_empty() { format!("link{}.typ", li) } else { format!("{}/link{}.typ", link_dir, li) };
            if !used.insert(link_rel.clone()) {
                continue;
            }
            let ups = link_rel.matches('/').count();
            let rel_target = format!("{}{}", "../".repeat(ups), target);
            files.push(FileSpec { rel: link_rel, kind: Kind::Symlink(rel_target), content: vec![], mode: 0o777, class: "symlink".into() });
        }
    }
    if rng.chance(1, 4) && used.insert("dir.typ".into()) {
        files.push(FileSpec { rel: "dir.typ".into(), kind: Kind::Dir, content: vec![], mode: 0o755, class: "directory-named-like-a-file".into() });
        files.push(file_spec("dir.typ/inside.typ", "unformatted", rng));
    }
    if rng.chance(1, 5) {
        // an unreadable directory with a file inside
        if used.insert("locked".into()) {
            files.push(file_spec("locked/x.typ", "unformatted", rng));
            files.push(FileSpec { rel: "locked".into(), kind: Kind::Dir, content: vec![], mode: 0o000, class: "unreadable-directory".into() });
        }
    }
    files
}

fn all_dirs(files: &[FileSpec]) -> Vec<String> {
    let mut s = std::collections::BTreeSet::new();
    s.insert(String::new());
    for f in files {
        let comps: Vec<&str> = f.rel.split('/').collect();
        for k in 1..comps.len() {
            s.insert(comps[..k].join("/"));
        }
        if f.kind == Kind::Dir {
            s.insert(f.rel.clone());
        }
    }
    s.into_iter().collect()
}

pub fn gen_step(files: &[FileSpec], prop: &str, rng: &mut Rng) -> Step {
    let check = prop == "C14" || (prop == "C16" && rng.chance(1, 8));
    let mut args: Vec<String> = vec![];
    let style = style_args(rng);
    let dirs = all_dirs(files);
    let shape = match prop {
        "C14" => rng.below(4),                      // 0 files, 1 stdin, 2/3 format-all
        "C15" => if rng.chance(1, 2) { 0 } else { 2 }, // -i files / format-all
        _ => rng.below(4),
    };
    let cwd = if rng.chance(1, 3) { rng.pick(&dirs).clone() } else { String::new() };
    let cwd_ok = |d: &String| !files.iter().any(|f| f.rel == *d && f.mode & 0o500 != 0o500);
    let cwd = if cwd_ok(&cwd) && !cwd.starts_with("locked") { cwd } else { String::new() };
    let rel_to_cwd = |target: &str| -> String {
        // express a root-relative path relative to cwd
        if cwd.is_empty() {
            return target.to_string();
        }
        let ups = cwd.split('/').count();
        format!("{}{}", "../".repeat(ups), target)
    };
    let style_first = rng.chance(1, 2);
    match shape {
        1 => {
            // stdin
            if style_first {
                args.extend(style.clone());
            }
            if check {
                args.push("--check".into());
            }
            if !style_first {
                args.extend(style.clone());
            }
            let text = String::from_utf8_lossy(&body(*rng.pick(&["formatted", "unformatted", "erroneous", "crlf", "empty", "formatted-nofinalnl-unformatted", "formatted-crlf", "bom-formatted", "bom-unformatted", "blank-only"]), rng)).to_string();
            Step { args, stdin: Some(text), cwd }
        }
        2 | 3 => {
            // format-all
            let dir_arg: Option<String> = match rng.below(7) {
                0 | 1 => None,
                2 => Some(".".into()),
                3 => Some("./".into()),
                _ => {
                    let d = rng.pick(&dirs).clone();
                    if d.is_empty() { Some(rel_to_cwd(".")) } else { Some(rel_to_cwd(&d)) }
                }
            };
            let global_first = rng.chance(1, 2);
            if global_first {
                args.extend(style.clone());
                if check {
                    args.push("--check".into());
                }
            }
            // `-i` in front of the subcommand is accepted by the argument parser (its conflict with `--check` is only
            // checked on the top level, and `--check` given after the subcommand arrives as a global): format-all must
            // behave exactly as without it
            if (!check || !global_first) && rng.chance(1, 5) {
                args.push(if rng.chance(1, 2) { "-i".into() } else { "--inplace".into() });
            }
            args.push("format-all".into());
            if let Some(d) = &dir_arg {
                args.push(d.clone());
            }
            if !global_first {
                if check {
                    args.push("--check".into());
                }
                args.extend(style.clone());
            }
            Step { args, stdin: None, cwd }
        }
        _ => {
            // file list
            let candidates: Vec<&FileSpec> = files.iter().filter(|f| !f.rel.starts_with("locked")).collect();
            let n = 1 + rng.below(4);
            let mut list = vec![];
            for _ in 0..n {
                match rng.below(12) {
                    0 => list.push(rel_to_cwd("missing.typ")),
                    1 => list.push(rel_to_cwd(rng.pick(&dirs).as_str()).replace("//", "/")),
                    _ => {
                        if !candidates.is_empty() {
                            list.push(rel_to_cwd(&rng.pick(&candidates).rel));
                        }
                    }
                }
            }
            let list: Vec<String> = list.into_iter().filter(|s| !s.is_empty()).collect();
            if list.is_empty() {
                return gen_step(files, prop, rng);
            }
            let inplace = prop == "C15" || (prop == "C16" && rng.chance(1, 3) && !check);
            if style_first {
                args.extend(style.clone());
            }
            if inplace {
                args.push(if rng.chance(1, 2) { "-i".into() } else { "--inplace".into() });
            }
            if check {
                args.push("--check".into());
            }
            args.extend(list);
            if !style_first {
                args.extend(style.clone());
            }
            Step { args, stdin: None, cwd }
        }
    }
}

pub fn gen_scenario(i: u64, prop: &str) -> Scenario {
    let mut rng = Rng::new(i ^ util::hash64(prop));
    let files = gen_tree(&mut rng);
    let nsteps = 1 + rng.below(3);
    let mut steps = vec![];
    for _ in 0..nsteps {
        steps.push(gen_step(&files, prop, &mut rng));
    }
    if prop == "C15" {
        // a second run of the same command must be a no-op
        let last = steps.last().unwrap().clone();
        steps.push(last);
    }
    Scenario { files, steps }
}

/// Fault enumeration for C15: every assignment of fault classes to the positions of a file list (length ≤ 4).
pub const FAULT_CLASSES: [&str; 8] = ["ok-unformatted", "ok-formatted", "erroneous", "missing", "directory", "invalid-utf8", "unreadable", "unwritable"];

pub fn fault_list_count() -> usize {
    8 + 64 + 512 + 4096
}

pub fn fault_list_scenario(mut idx: usize, rng: &mut Rng) -> Scenario {
    let mut len = 1;
    let mut block = 8;
    while idx >= block {
        idx -= block;
        len += 1;
        block *= 8;
    }
    let mut files = vec![];
    let mut list = vec![];
    for pos in 0..len {
        let c = FAULT_CLASSES[idx % 8];
        idx /= 8;
        let rel = format!("f{}.typ", pos);
        match c {
            "missing" => {}
            "directory" => files.push(FileSpec { rel: rel.clone(), kind: Kind::Dir, content: vec![], mode: 0o755, class: c.into() }),
            "ok-unformatted" => files.push(file_spec(&rel, "unformatted", rng)),
            "ok-formatted" => files.push(file_spec(&rel, "formatted", rng)),
            other => files.push(file_spec(&rel, other, rng)),
        }
        list.push(rel);
    }
    // a bystander that must never be touched
    files.push(file_spec("bystander.typ", "unformatted", rng));
    let mut args = vec!["-i".to_string()];
    args.extend(list);
    let step = Step { args, stdin: None, cwd: String::new() };
    Scenario { files, steps: vec![step.clone(), step] }
}

// ------------------------------------------------------------------------------------------------
// C16: option sweep on single sources

pub fn c16_scenario(text: &str, rng: &mut Rng) -> Scenario {
    let col = match rng.below(6) {
        0 => 0,
        1 => 400,
        _ => rng.below(401),
    };
    let tab = match rng.below(5) {
        0 => 0,
        1 => 16,
        _ => rng.below(17),
    };
    let reorder = rng.chance(1, 3);
    let mut style = vec![];
    match rng.below(3) {
        0 => style.extend(["-c".to_string(), col.to_string()]),
        1 => style.extend(["--column".to_string(), col.to_string()]),
        _ => style.push(format!("--column={}", col)),
    }
    match rng.below(2) {
        0 => style.extend(["-t".to_string(), tab.to_string()]),
        _ => style.extend(["--tab-width".to_string(), tab.to_string()]),
    }
    if reorder {
        style.push("--reorder-import-items".into());
    }
    let files = vec![
        FileSpec { rel: "one.typ".into(), kind: Kind::File, content: text.as_bytes().to_vec(), mode: 0o644, class: "source".into() },
        FileSpec { rel: "dir/two.typ".into(), kind: Kind::File, content: text.as_bytes().to_vec(), mode: 0o644, class: "source".into() },
        FileSpec { rel: "three.typ".into(), kind: Kind::File, content: b"#let   three=3\n".to_vec(), mode: 0o644, class: "unformatted".into() },
        // an erroneous file that a name-ordered or readdir-ordered walk may visit before the source
        FileSpec { rel: "dir/a_broken.typ".into(), kind: Kind::File, content: b"#f(\n".to_vec(), mode: 0o644, class: "erroneous".into() },
        FileSpec { rel: "dir/zz_broken.typ".into(), kind: Kind::File, content: b"#let x = (1,\n".to_vec(), mode: 0o644, class: "erroneous".into() },
    ];
    let mut steps = vec![];
    // stdout, several files in argument order
    let mut a = style.clone();
    a.extend(["three.typ".to_string(), "one.typ".to_string(), "dir/two.typ".to_string()]);
    steps.push(Step { args: a, stdin: None, cwd: String::new() });
    // stdout, a seed-chosen argument list with repetitions (the same file named twice is printed twice) and erroneous files
    let names = ["three.typ", "one.typ", "dir/two.typ", "dir/a_broken.typ", "dir/zz_broken.typ"];
    let mut a = style.clone();
    let n = 2 + rng.below(5);
    let mut list: Vec<String> = (0..n).map(|_| names[rng.below(names.len())].to_string()).collect();
    if rng.chance(1, 2) {
        // force at least one repetition, adjacent or not
        let k = rng.below(list.len());
        let dup = list[k].clone();
        let at = rng.below(list.len() + 1);
        list.insert(at, dup);
    }
    a.extend(list);
    steps.push(Step { args: a, stdin: None, cwd: String::new() });
    // stdin
    steps.push(Step { args: style.clone(), stdin: Some(text.to_string()), cwd: String::new() });
    // in place
    let mut a = vec!["-i".to_string(), "one.typ".to_string()];
    a.extend(style.clone());
    steps.push(Step { args: a, stdin: None, cwd: String::new() });
    // format-all on the sub directory
    let mut a = style.clone();
    a.extend(["format-all".to_string(), "dir".to_string()]);
    steps.push(Step { args: a, stdin: None, cwd: String::new() });
    Scenario { files, steps }
}

// ------------------------------------------------------------------------------------------------
// property runs

fn push_violations(acc: &mut Acc, prop: &str, sc: &Scenario, origin: &str, out: &Outcome) {
    for (oracle, detail) in &out.violations {
        // C14 only claims check-mode facts, C15 in-place facts, C16 agreement facts — all are judged by the same model
        acc.violations.push(Violation {
            property: prop.to_string(),
            input: serde_json::to_string(&sc.to_json()).unwrap(),
            cfg: None,
            origin: origin.to_string(),
            oracle: oracle.clone(),
            detail: detail.clone(),
            extra: Value::Null,
        });
    }
}

fn account(acc: &mut Acc, sc: &Scenario, out: &Outcome, nontrivial: bool) {
    acc.evaluations += out.steps_run as u64;
    acc.count("cli_invocations", out.steps_run as u64);
    acc.count("strace_lines_logged", out.syscalls);
    acc.count("files_verified_written_with_library_bytes", out.files_written as u64);
    acc.count("path_snapshots_verified_untouched", out.files_checked_untouched as u64);
    acc.count("check_statuses_compared_with_the_binary's_own_plain_output(inputs)", out.self_judged as u64);
    for d in &out.dont_know {
        acc.count(&format!("model_dont_know[{}]", util::clip(d, 40)), 1);
    }
    if out.violations.is_empty() {
        acc.held += out.steps_run as u64;
    }
    let h = util::hash64(&serde_json::to_string(&sc.to_json()).unwrap());
    acc.distinct_inputs.insert(h);
    if nontrivial {
        acc.nontrivial.insert(h);
    }
    if acc.samples.len() < 2 {
        acc.sample(json!({
            "tree": sc.files.iter().map(|f| format!("{} [{}; mode {:o}]", f.rel, f.class, f.mode)).collect::<Vec<_>>(),
            "invocations": sc.steps.iter().map(|s| format!("(cwd={}) typstyle {}{}", if s.cwd.is_empty() { "." } else { &s.cwd }, s.args.join(" "), if s.stdin.is_some() { " <stdin" } else { "" })).collect::<Vec<_>>(),
        }));
    }
}

pub fn run(prop: &str, tier: Tier) -> (RunMeta, Acc) {
    let seed = util::seed_from_env();
    let (level, rule) = match prop {
        "C14" => ("exploration", "generated file trees (formatted / unformatted / erroneous / invalid UTF-8 / unreadable / unwritable / CRLF / empty / non-.typ / hidden files and directories / symlink / directory named x.typ / unreadable directory, nested 0-4 deep, every body with a unique marker word and a distinct past mtime) × histories of 1-3 check-mode invocations (file lists, stdin, format-all with/without directory incl. '.', './', hidden and nested roots, options before/after the subcommand) × style options; each run as uid 65534 under strace; evaluation = one CLI invocation compared with the executable model (exit status, byte+mtime+inode+mode snapshot of every path, write-class syscalls on the tree, marker words on stdout); distinct = scenario hash; non-trivial = the model predicts exit status 1 for at least one step or the tree contains a fault class"),
        "C15" => ("fault_enumeration", "exhaustive enumeration (thorough; seed window in quick) of all assignments of {ok-unformatted, ok-formatted, erroneous, missing, directory, invalid-UTF-8, unreadable, unwritable} to the positions of an in-place file list of length ≤ 4 (4680 lists, each run twice: the second run must be a no-op), plus generated trees × {-i lists, format-all} histories ending in a repeated command; evaluation = one CLI invocation against the model (set of modified files, bytes = library output, bystanders' bytes+mtime, exit status, strace write log); distinct = scenario hash; non-trivial = at least one file had to be written or one fault was present"),
        _ => ("exploration", "sources (corpus, erroneous/hostile, with and without final newline, CRLF, a ~1 MB concatenation) × column ∈ [0,400] × tab-width ∈ [0,16] × reorder flag × option spellings × front-end (stdout with several files in argument order, stdin, -i, format-all) compared byte-wise with Typstyle::format_content linked into the harness, and format_with_width vs the library; evaluation = one CLI invocation or one format_with_width call; distinct = scenario hash; non-trivial = the library output differs from the source text"),
    };
    let mut meta = RunMeta::new(prop, tier.name(), level, rule);
    meta.assumptions = vec![
        "the model (harness/src/p_cli.rs model_step) is the reading of the statement; it calls the library linked from the same /repo sources for 'formatted form'".into(),
        "the CLI under test is /repo's release build; it runs as uid 65534 so that permission faults are real although the harness is root".into(),
        "read failures inside format-all are finding F14 (model: don't know for the exit status)".into(),
    ];
    if !cli_bin().exists() {
        let mut acc = Acc::new();
        acc.inconclusive("cli-binary-missing");
        return (meta, acc);
    }
    use rayon::prelude::*;
    let mut acc = Acc::new();
    match prop {
        "C14" | "C15" => {
            let n = match (prop, tier) {
                ("C14", Tier::Quick) => 700,
                ("C14", _) => 12_000,
                ("C15", Tier::Quick) => 400,
                _ => 6000,
            };
            let base = seed.wrapping_mul(1_000_003);
            let idx: Vec<u64> = (0..n as u64).map(|i| base.wrapping_add(i) % 1_000_000).collect();
            let accs: Vec<Acc> = idx
                .par_chunks(8)
                .map(|ch| {
                    let mut a = Acc::new();
                    for &i in ch {
                        let sc = gen_scenario(i, prop);
                        match run_scenario(&sc, prop, true) {
                            None => a.inconclusive("cli-harness-error"),
                            Some(out) => {
                                let nontrivial = sc.files.iter().any(|f| f.class != "formatted") && out.steps_run > 0;
                                account(&mut a, &sc, &out, nontrivial);
                                push_violations(&mut a, prop, &sc, &format!("G-TREE#{}", i), &out);
                            }
                        }
                    }
                    a
                })
                .collect();
            for a in accs {
                acc.merge(a);
            }
            meta.pools.push(json!({"pool": "G-TREE", "pool_size": 1_000_000, "selected": n}));
            if prop == "C15" {
                let total = fault_list_count();
                let sel: Vec<usize> = if tier == Tier::Quick {
                    let mut r = Rng::new(seed ^ 0xFA17);
                    let mut v: Vec<usize> = (0..72).collect(); // all lists of length 1 and 2
                    v.extend(crate::pools::select(total - 72, 300, &mut r).into_iter().map(|x| x + 72));
                    v
                } else {
                    (0..total).collect()
                };
                meta.exhaustive = tier != Tier::Quick;
                let accs: Vec<Acc> = sel
                    .par_chunks(8)
                    .map(|ch| {
                        let mut a = Acc::new();
                        for &i in ch {
                            let mut r = Rng::new(i as u64 ^ 0x15);
                            let sc = fault_list_scenario(i, &mut r);
                            match run_scenario(&sc, prop, true) {
                                None => a.inconclusive("cli-harness-error"),
                                Some(out) => {
                                    a.count("fault_lists_enumerated", 1);
                                    account(&mut a, &sc, &out, true);
                                    push_violations(&mut a, prop, &sc, &format!("FAULT-LIST#{}", i), &out);
                                }
                            }
                        }
                        a
                    })
                    .collect();
                for a in accs {
                    acc.merge(a);
                }
                meta.pools.push(json!({"pool": "FAULT-LIST (8^1+8^2+8^3+8^4 assignments)", "pool_size": total, "selected": sel.len()}));
            }
        }
        _ => {
            // C16
            let std = crate::workload::Std::load();
            let mut cases = std.base_list().cases;
            cases.extend(crate::corpus::hostile());
            let mut rng = Rng::new(seed ^ 0xC16);
            // special sources
            let big: String = std.fixtures.iter().map(|c| c.text.as_str()).collect::<Vec<_>>().join("\n");
            let mut n_special = 4;
            cases.push(crate::engine::Case::new(big, "concatenation of all fixtures (~560 kB)"));
            cases.push(crate::engine::Case::new("no final newline #let   x=1", "no-final-newline"));
            cases.push(crate::engine::Case::new("#let   x=1\r\n#let y  = 2\r\n", "crlf"));
            cases.push(crate::engine::Case::new("", "empty"));
            // sources that differ from the library's text only in their line terminators, blank-only sources, and a source that
            // only the reorder flag changes: every front-end has to produce the library's bytes for them as well
            for (t, o) in [
                ("= Title\r\n\r\nSome text.\r\n", "formatted apart from CRLF"),
                ("#let f(x) = {\r\n  x + 1\r\n}\r\n", "formatted at tab 2 apart from CRLF"),
                ("first\r\nsecond\nthird\r\n", "mixed CRLF/LF"),
                ("= Title\r\rSome text.\r", "CR only"),
                ("\n", "blank-only LF"),
                ("  ", "blank-only spaces"),
                ("\t\n", "blank-only tab"),
                (" \n \n", "blank-only lines"),
                ("#import \"lib.typ\": zeta, alpha, mid\n", "formatted apart from import order"),
                ("Text.", "formatted apart from the final newline"),
                ("\u{feff}= Title\n\nText.\n", "byte order mark, otherwise formatted"),
                ("\u{feff}#let   x=1\n", "byte order mark, unformatted"),
            ] {
                cases.push(crate::engine::Case::new(t, o));
                n_special += 1;
            }
            // erroneous sources (printed verbatim) whose last line has no newline and straddles stdio buffer sizes
            for len in [1000usize, 1023, 1024, 1025, 4095, 4096, 8191, 8192, 8193, 70_000] {
                let tail = "1, ".repeat(len / 3 + 1);
                cases.push(crate::engine::Case::new(format!("= Title\n#let x = ({}", &tail[..len]), format!("erroneous, unterminated last line of {} bytes", len)));
                cases.push(crate::engine::Case::new(format!("#f(\"{}", "x".repeat(len)), format!("erroneous single line of {} bytes", len)));
                n_special += 2;
            }
            // the scenario format carries sources as text files created through the shell-free runner, which cannot hold NUL
            let before = cases.len();
            cases.retain(|c| !c.text.contains('\0') && c.text.len() <= 2_000_000);
            acc.count("sources_skipped(contain NUL or > 2 MB)", (before - cases.len()) as u64);
            let n = if tier == Tier::Quick { 260 } else { 4000 };
            let mut idx: Vec<usize> = (0..cases.len()).collect();
            rng.shuffle(&mut idx);
            let specials = cases.len() - n_special;
            let mut sel: Vec<(usize, u64)> = (specials..cases.len()).map(|i| (i, rng.next())).collect();
            for k in 0..n {
                sel.push((idx[k % idx.len()], rng.next()));
            }
            let accs: Vec<Acc> = sel
                .par_chunks(4)
                .map(|ch| {
                    let mut a = Acc::new();
                    for &(i, s) in ch {
                        let c = &cases[i];
                        if c.text.contains('\0') || c.text.len() > 2_000_000 {
                            continue;
                        }
                        let mut r = Rng::new(s);
                        let sc = c16_scenario(&c.text, &mut r);
                        let p = parse_args(&sc.steps[0].args);
                        match run_scenario(&sc, "C16", false) {
                            None => a.inconclusive("cli-harness-error"),
                            Some(out) => {
                                let nontrivial = matches!(fmtx::fmt(&c.text, p.cfg), FmtOut::Ok(y) if y != c.text);
                                account(&mut a, &sc, &out, nontrivial);
                                push_violations(&mut a, "C16", &sc, &c.origin, &out);
                            }
                        }
                        // the width-only convenience function
                        let w = p.cfg.width;
                        let lib = fmtx::fmt(&c.text, Cfg::new(w, 2, false));
                        if let Ok(s) = fmtx::guarded(|| typstyle_core::format_with_width(&c.text, w)) {
                            a.evaluations += 1;
                            a.count("format_with_width_calls", 1);
                            let want = match &lib {
                                FmtOut::Ok(y) => y.clone(),
                                _ => c.text.clone(),
                            };
                            if s != want {
                                a.violations.push(Violation {
                                    property: "C16".into(),
                                    input: c.text.clone(),
                                    cfg: Some(Cfg::new(w, 2, false)),
                                    origin: c.origin.clone(),
                                    oracle: "format_with_width-equals-library".into(),
                                    detail: format!("format_with_width(text, {}) differs from the library: {}", w, crate::treeprops::first_line_diff(&want, &s)),
                                    extra: Value::Null,
                                });
                            } else {
                                a.held += 1;
                            }
                        }
                    }
                    a
                })
                .collect();
            for a in accs {
                acc.merge(a);
            }
            meta.pools.push(json!({"pool": "sources × option sweep", "pool_size": cases.len(), "selected": sel.len()}));
        }
    }
    crate::special::run_fixed_repros(prop, &mut acc);
    (meta, acc)
}

pub fn violated(v: &Violation, new_input: &str) -> Option<bool> {
    if v.oracle == "format_with_width-equals-library" {
        let cfg = v.cfg?;
        let lib = fmtx::fmt(new_input, cfg);
        let s = fmtx::guarded(|| typstyle_core::format_with_width(new_input, cfg.width)).ok()?;
        let want = match &lib {
            FmtOut::Ok(y) => y.clone(),
            _ => new_input.to_string(),
        };
        return Some(s != want);
    }
    let sc = Scenario::from_json(&serde_json::from_str(new_input).ok()?)?;
    let out = run_scenario(&sc, &v.property, v.property != "C16")?;
    Some(!out.violations.is_empty())
}

/// Counterfactual for finding F14: make every unreadable / non-UTF-8 file readable UTF-8.
pub fn repair_f14(input: &str) -> Option<String> {
    let mut sc = Scenario::from_json(&serde_json::from_str(input).ok()?)?;
    let mut changed = false;
    for f in sc.files.iter_mut() {
        if f.kind == Kind::File && (f.mode & 0o400 == 0 || String::from_utf8(f.content.clone()).is_err()) {
            f.mode = 0o644;
            f.content = String::from_utf8_lossy(&f.content).replace('\u{FFFD}', "?").into_bytes();
            changed = true;
        }
    }
    if changed {
        Some(serde_json::to_string(&sc.to_json()).unwrap())
    } else {
        None
    }
}


// ------------------------------------------------------------------------------------------------
// C11 through the command line: several documents formatted by ONE process (file list, format-all), so that whatever the
// front-end keeps between documents takes part; the rule is the library's: non-empty, final line feed, no blank at a line end.

const HYGIENE_DOCS: [&str; 22] = [
    "\n", "  ", "\t\n", " \n", " \n \n", "\n\n", "\u{a0}\n", "",
    "#let a = 0\n", "#let   b=1", "text   \nmore\t\n", "// only a comment", "/* block */  ", "= Title  \n\n\n",
    "```\nraw  \n```", "#f(  )  \n  ", "- item\n\n", "$ x $ \n", "a \\\n", "#[\n]\n \n", "text\r\n", "#let s = \"a\"  \n\n\n   ",
];

fn hygiene_scenario(i: u64) -> Scenario {
    let mut rng = Rng::new(i ^ 0xC11);
    let n = 2 + rng.below(5);
    let mut files = vec![];
    for k in 0..n {
        // blank-only documents more often than the rest
        let d = if rng.chance(1, 2) { HYGIENE_DOCS[rng.below(8)] } else { HYGIENE_DOCS[rng.below(HYGIENE_DOCS.len())] };
        let dir = *rng.pick(&["", "", "sub/"]);
        files.push(FileSpec { rel: format!("{}f{}.typ", dir, k), kind: Kind::File, content: d.as_bytes().to_vec(), mode: 0o644, class: "hygiene".into() });
    }
    let style = style_args(&mut rng);
    let mut names: Vec<String> = files.iter().map(|f| f.rel.clone()).collect();
    rng.shuffle(&mut names);
    let mut steps = vec![];
    // stdout, the files in a seed-chosen order
    let mut a = style.clone();
    a.extend(names.clone());
    steps.push(Step { args: a, stdin: None, cwd: String::new() });
    // in place (or format-all), same process for all files
    if rng.chance(1, 2) {
        let mut a = vec!["-i".to_string()];
        a.extend(style.clone());
        a.extend(names.clone());
        steps.push(Step { args: a, stdin: None, cwd: String::new() });
    } else {
        let mut a = style.clone();
        a.push("format-all".into());
        steps.push(Step { args: a, stdin: None, cwd: String::new() });
    }
    Scenario { files, steps }
}

/// Runs the scenario; returns (documents judged, first violation).
fn hygiene_check(sc: &Scenario) -> Option<(u64, Option<String>)> {
    let sb = materialise(sc)?;
    let mut judged = 0u64;
    let wellformed: Vec<bool> = sc.files.iter().map(|f| std::str::from_utf8(&f.content).map(|t| !typst_syntax::parse(t).erroneous()).unwrap_or(false)).collect();
    for (si, step) in sc.steps.iter().enumerate() {
        let res = run_cli(&sb, step, false);
        res.code?;
        let cmd = format!("typstyle {}", step.args.join(" "));
        if si == 0 {
            // stdout: the concatenation of the formatted documents; all inputs here are well-formed
            if wellformed.iter().all(|&w| w) {
                judged += 1;
                let out = String::from_utf8_lossy(&res.stdout).to_string();
                if let Some(d) = crate::treeprops::hygiene_violation(&out) {
                    return Some((judged, Some(format!("step {} `{}`: standard output: {}", si, cmd, d))));
                }
            }
        } else {
            for (f, &w) in sc.files.iter().zip(&wellformed) {
                if !w {
                    continue;
                }
                let Ok(now) = std::fs::read(sb.root.join(&f.rel)) else { continue };
                judged += 1;
                let now = String::from_utf8_lossy(&now).to_string();
                if let Some(d) = crate::treeprops::hygiene_violation(&now) {
                    return Some((judged, Some(format!("step {} `{}`: {} afterwards: {}", si, cmd, f.rel, d))));
                }
            }
        }
    }
    Some((judged, None))
}

pub fn run_hygiene(tier: Tier, seed: u64, acc: &mut Acc) {
    if !cli_bin().exists() {
        acc.inconclusive("cli-binary-missing(front-end hygiene skipped)");
        return;
    }
    let n: u64 = if tier == Tier::Quick { 150 } else { 3000 };
    use rayon::prelude::*;
    let base = seed.wrapping_mul(7919);
    let accs: Vec<Acc> = (0..n)
        .into_par_iter()
        .map(|k| {
            let mut a = Acc::new();
            let i = base.wrapping_add(k) % 100_000;
            let sc = hygiene_scenario(i);
            match hygiene_check(&sc) {
                None => a.inconclusive("cli-harness-error"),
                Some((judged, v)) => {
                    a.evaluations += judged;
                    a.count("front_end_documents_judged", judged);
                    a.count("front_end_invocations", sc.steps.len() as u64);
                    match v {
                        None => {
                            a.held += judged;
                            a.nontrivial.insert(util::hash64_parts(&["front-end", &i.to_string()]));
                        }
                        Some(detail) => a.violations.push(Violation {
                            property: "C11".into(),
                            input: serde_json::to_string(&sc.to_json()).unwrap(),
                            cfg: None,
                            origin: format!("G-HYGIENE#{}", i),
                            oracle: "front-end-hygiene".into(),
                            detail,
                            extra: Value::Null,
                        }),
                    }
                }
            }
            a
        })
        .collect();
    for a in accs {
        acc.merge(a);
    }
}

pub fn hygiene_violated(input: &str) -> Option<bool> {
    let sc = Scenario::from_json(&serde_json::from_str(input).ok()?)?;
    Some(hygiene_check(&sc)?.1.is_some())
}
