//! Stream/line/gap abstractions of syntax trees for C06 (comments), C08 (prose), C09 (math gaps), C10 (literals).

use typst_syntax::{ast, SyntaxKind as K, SyntaxNode};

use crate::nf::raw_repr;
use crate::tree;

// ------------------------------------------------------------------------------------------------
// C06: interleaved word/comment stream

fn strip_eol_blanks(s: &str) -> String {
    s.split('\n').map(|l| l.trim_end()).collect::<Vec<_>>().join("\n")
}

pub fn norm_comment(kind: K, text: &str) -> String {
    if kind == K::LineComment {
        return format!("L:{}", text.trim_end());
    }
    let mut out = String::new();
    // the lines of a block comment are what Typst's newline characters delimit (CR, CRLF, LS, ... as well as LF); which
    // terminator ends a line is not part of the comment's text for this monitor (the printer re-joins the lines with LF) —
    // a terminator that *vanishes* joins two lines and is seen
    // (one directly in front of a line feed is a blank at the end of that line, which may go)
    let text: String = text
        .split('\n')
        .enumerate()
        .map(|(i, l)| (if i == 0 { l.trim_end() } else { l.trim() }).chars().map(|c| if typst_syntax::is_newline(c) { '\n' } else { c }).collect::<String>())
        .collect::<Vec<_>>()
        .join("\n");
    for (i, line) in text.lines().enumerate() {
        if i == 0 {
            out.push_str(line.trim_end());
        } else {
            out.push('\n');
            out.push_str(line.trim());
        }
    }
    format!("B:{}", out)
}

pub fn is_keyword_word(k: K) -> bool {
    matches!(
        k,
        K::Not
            | K::And
            | K::Or
            | K::None
            | K::Auto
            | K::Let
            | K::Set
            | K::Show
            | K::Context
            | K::If
            | K::Else
            | K::For
            | K::In
            | K::While
            | K::Break
            | K::Continue
            | K::Return
            | K::Import
            | K::Include
            | K::As
    )
}

/// The C06 stream: comments and words in order; punctuation and whitespace vanish.
pub fn comment_word_stream(root: &SyntaxNode) -> Vec<String> {
    let mut out = vec![];
    fn rec(n: &SyntaxNode, parent_not_in: bool, out: &mut Vec<String>) {
        let k = n.kind();
        if k == K::Raw {
            // EOL blanks inside literals are C10's business, not C06's
            let r = n.cast::<ast::Raw>();
            let lines: Vec<String> = r
                .map(|r| r.lines().map(|t| t.get().trim_end().to_string()).collect())
                .unwrap_or_default();
            out.push(format!("W:Raw{:?}", lines));
            return;
        }
        if n.children().len() == 0 {
            match k {
                K::LineComment | K::BlockComment => out.push(norm_comment(k, n.text())),
                K::Text => {
                    for w in n.text().split_whitespace() {
                        out.push(format!("W:{}", w));
                    }
                }
                K::Str => out.push(format!("W:{}", strip_eol_blanks(n.text()))),
                K::Ident
                | K::MathIdent
                | K::MathText
                | K::MathShorthand
                | K::MathAlignPoint
                | K::Int
                | K::Float
                | K::Numeric
                | K::Bool
                | K::Label
                | K::RefMarker
                | K::Link
                | K::Escape
                | K::Shorthand
                | K::SmartQuote
                | K::Linebreak
                | K::HeadingMarker
                | K::ListMarker
                | K::EnumMarker
                | K::TermMarker
                | K::Prime => out.push(format!("W:{}", n.text())),
                K::Shebang => out.push(format!("W:{}", n.text().trim_end())),
                K::Not | K::In if parent_not_in => {}
                _ if is_keyword_word(k) => out.push(format!("W:{}", n.text())),
                _ => {}
            }
            return;
        }
        let not_in = k == K::Binary
            && n.cast::<ast::Binary>().map(|b| b.op() == ast::BinOp::NotIn).unwrap_or(false);
        for c in n.children() {
            rec(c, not_in, out);
        }
    }
    rec(root, false, &mut out);
    out
}

pub fn comments_only(stream: &[String]) -> Vec<&String> {
    stream.iter().filter(|s| s.starts_with("L:") || s.starts_with("B:")).collect()
}

// ------------------------------------------------------------------------------------------------
// C10: literal sequence

pub fn literal_stream(root: &SyntaxNode) -> Vec<String> {
    let mut out = vec![];
    fn rec(n: &SyntaxNode, out: &mut Vec<String>) {
        let k = n.kind();
        if k == K::Raw {
            out.push(raw_repr(n));
            return;
        }
        if n.children().len() == 0 {
            if matches!(
                k,
                K::Str | K::Int | K::Float | K::Numeric | K::Ident | K::MathIdent | K::Label | K::RefMarker | K::Link | K::Escape | K::Bool
            ) {
                out.push(format!("{:?}:{}", k, n.text()));
            }
            return;
        }
        for c in n.children() {
            rec(c, out);
        }
    }
    rec(root, &mut out);
    out
}

// ------------------------------------------------------------------------------------------------
// C09: math gap classes

#[derive(Clone, Copy, PartialEq, Eq, Debug)]
pub enum Gap {
    None,
    Space,
    Newline,
}

/// For every Math / MathDelimited node in pre-order: (kind, child kinds, gaps between consecutive non-trivia children);
/// for every Equation: its block flag.
pub fn math_gaps(root: &SyntaxNode) -> Vec<String> {
    let mut out = vec![];
    tree::walk(root, &mut |n, _, _| match n.kind() {
        K::Equation => {
            let block = n.cast::<ast::Equation>().map(|e| e.block()).unwrap_or(false);
            out.push(format!("Equation block={}", block));
        }
        K::Math | K::MathDelimited => {
            // an empty Math node (an omitted argument such as in `f(, a)`) has no atoms and no gaps
            if !n.children().any(|c| c.kind() != K::Space && !tree::is_comment(c.kind())) {
                return;
            }
            let mut s = format!("{:?}:", n.kind());
            let mut gap = Gap::None;
            let mut first = true;
            let mut after_hash = false;
            for c in n.children() {
                let ck = c.kind();
                if ck == K::Space {
                    let nl = c.text().chars().any(tree::is_newline_char);
                    if nl {
                        gap = Gap::Newline;
                    } else if gap == Gap::None {
                        gap = Gap::Space;
                    }
                    continue;
                }
                if tree::is_comment(ck) {
                    continue;
                }
                if !first {
                    s.push(match gap {
                        Gap::None => '|',
                        Gap::Space => '_',
                        Gap::Newline => '/',
                    });
                } else if gap != Gap::None {
                    // leading whitespace inside the node
                    s.push(match gap {
                        Gap::Space => '_',
                        _ => '/',
                    });
                }
                first = false;
                gap = Gap::None;
                // embedded code after `#` is opaque: the printer may legitimately restyle it (`#(1)` -> `#1`)
                if after_hash {
                    s.push_str("<code>");
                } else {
                    s.push_str(&atom_repr(c));
                }
                after_hash = ck == K::Hash;
            }
            if gap != Gap::None && !first {
                s.push(match gap {
                    Gap::Space => '_',
                    _ => '/',
                });
            }
            out.push(s);
        }
        _ => {}
    });
    out
}

fn atom_repr(n: &SyntaxNode) -> String {
    if n.children().len() == 0 {
        format!("{:?}", n.text().as_str())
    } else {
        format!("<{:?}>", n.kind())
    }
}

// ------------------------------------------------------------------------------------------------
// C08: prose lines of every Markup node

#[derive(Clone, Debug, PartialEq, Eq)]
pub struct ProseLine {
    /// prose text with blank runs collapsed; embedded non-prose children shown as U+0001
    pub text: String,
    /// separator that follows this line: 0 = end, 1 = NL, n>=2 = PAR(n)
    pub sep: usize,
    pub has_prose: bool,
    /// contains a Text node (what the printer treats as a prose line)
    pub has_text: bool,
    /// the source span of this line contains a line break
    pub multiline_src: bool,
    /// a strong/emph element on this line contains a line break in its own markup (not inside embedded code, raw, math)
    pub multiline_markup: bool,
}

/// Line break inside the markup of a strong/emph element, reached through strong/emph bodies only.
fn newline_in_inline_markup(n: &SyntaxNode) -> bool {
    match n.kind() {
        K::Strong | K::Emph | K::Markup => n.children().any(newline_in_inline_markup),
        K::Space | K::Parbreak => n.text().chars().any(tree::is_newline_char),
        _ => false,
    }
}

fn is_prose_kind(k: K) -> bool {
    matches!(
        k,
        K::Text | K::Escape | K::Shorthand | K::SmartQuote | K::Link | K::Label | K::Linebreak
    )
}

fn contains_newline(n: &SyntaxNode) -> bool {
    n.clone().into_text().chars().any(tree::is_newline_char)
}

/// Lines of one Markup node.
pub fn prose_lines(markup: &SyntaxNode) -> Vec<ProseLine> {
    let mut lines: Vec<ProseLine> = vec![];
    let mut cur = String::new();
    let mut cur_has_prose = false;
    let mut cur_has_text = false;
    let mut cur_multi = false;
    let mut cur_multi_markup = false;
    let mut cur_nonempty = false; // has any non-comment child
    let mut pending_blank = false;

    let kids: Vec<&SyntaxNode> = markup.children().collect();
    for c in kids {
        let k = c.kind();
        match k {
            K::Space | K::Parbreak => {
                let nl = tree::count_newlines(c.text());
                if nl == 0 {
                    pending_blank = true;
                } else {
                    let sep = if k == K::Parbreak { nl.max(2) } else { 1 };
                    // close the current line if it has content
                    if cur_nonempty {
                        lines.push(ProseLine {
                            text: std::mem::take(&mut cur),
                            sep: 0,
                            has_prose: cur_has_prose,
                            has_text: cur_has_text,
                            multiline_src: cur_multi,
                            multiline_markup: cur_multi_markup,
                        });
                        cur_has_prose = false;
                        cur_has_text = false;
                        cur_multi = false;
                        cur_multi_markup = false;
                        cur_nonempty = false;
                    }
                    // separators around comment-only lines merge to the strongest
                    if let Some(last) = lines.last_mut() {
                        last.sep = last.sep.max(sep);
                    }
                    pending_blank = false;
                }
            }
            K::LineComment | K::BlockComment => {
                // transparent
            }
            _ => {
                if pending_blank && cur_nonempty {
                    cur.push(' ');
                }
                pending_blank = false;
                cur_nonempty = true;
                if is_prose_kind(k) {
                    // collapse internal blank runs
                    let t = c.text();
                    let mut in_ws = false;
                    for ch in t.chars() {
                        if ch == ' ' || ch == '\t' {
                            if !in_ws {
                                cur.push(' ');
                            }
                            in_ws = true;
                        } else {
                            cur.push(ch);
                            in_ws = false;
                        }
                    }
                    cur_has_prose = true;
                    if k == K::Text {
                        cur_has_text = true;
                    }
                } else if k == K::Ref {
                    // the reference marker is prose; a supplement is embedded content
                    for rc in c.children() {
                        if rc.kind() == K::RefMarker {
                            cur.push_str(rc.text());
                        } else if rc.kind() == K::ContentBlock {
                            cur.push('\u{1}');
                            if contains_newline(rc) {
                                cur_multi = true;
                            }
                        }
                    }
                    cur_has_prose = true;
                } else {
                    cur.push('\u{1}');
                    if contains_newline(c) {
                        cur_multi = true;
                    }
                    if matches!(k, K::Strong | K::Emph) && newline_in_inline_markup(c) {
                        cur_multi_markup = true;
                    }
                }
            }
        }
    }
    if cur_nonempty {
        lines.push(ProseLine { text: cur, sep: 0, has_prose: cur_has_prose, has_text: cur_has_text, multiline_src: cur_multi, multiline_markup: cur_multi_markup });
    } else if let Some(last) = lines.last_mut() {
        // trailing whitespace of the markup is an outer edge
        last.sep = 0;
    }
    lines
}

/// All Markup nodes in pre-order with their lines.
pub fn all_prose(root: &SyntaxNode) -> Vec<Vec<ProseLine>> {
    let mut out = vec![];
    tree::walk(root, &mut |n, _, _| {
        if n.kind() == K::Markup {
            out.push(prose_lines(n));
        }
    });
    out
}
