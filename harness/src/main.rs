mod classifiers;
mod corpus;
mod engine;
mod findings;
mod fmtx;
mod nf;
mod report;
mod tree;
mod treeprops;
mod util;

use engine::{par_cases, Case};
use fmtx::Cfg;
use treeprops::{TreeCheck, Verdict};

fn pool_by_name(name: &str) -> Vec<Case> {
    match name {
        "fixtures" => corpus::fixtures(),
        "small_fixtures" => corpus::small_fixtures(),
        "snippets" => corpus::snippets(),
        "adversarial" => corpus::adversarial(),
        "programs" => corpus::programs(),
        _ => panic!("unknown pool {}", name),
    }
}

fn explore(args: &[String]) {
    let prop = args[0].as_str();
    let cases = pool_by_name(&args[1]);
    let widths: Vec<usize> = match args.get(2).map(|s| s.as_str()) {
        Some("all") => (0..=130).chain([400, fmtx::W_INF]).collect(),
        _ => vec![0, 1, 2, 10, 20, 40, 60, 80, 100, 120, fmtx::W_INF],
    };
    let tabs: Vec<usize> = match args.get(3).map(|s| s.as_str()) {
        Some("alltabs") => (1..=8).collect(),
        _ => vec![2, 4, 1],
    };
    let mut cfgs = vec![];
    for &t in &tabs {
        for &w in &widths {
            cfgs.push(Cfg::new(w, t, false));
        }
    }
    let oracle: &treeprops::Oracle = match prop {
        "C01" => &treeprops::oracle_c01,
        "C03" => &treeprops::oracle_c03,
        "C04" => &treeprops::oracle_c04,
        "C11" => &treeprops::oracle_c11,
        _ => panic!("unknown prop"),
    };
    let chk = TreeCheck { property: prop, per_output: prop != "C03", oracle };
    let acc = par_cases(&cases, |c, acc| treeprops::run_case(&chk, c, &cfgs, acc));
    println!(
        "evaluations={} held={} violations={} inconclusive={:?} nontrivial={}",
        acc.evaluations,
        acc.held,
        acc.violations.len(),
        acc.inconclusive,
        acc.nontrivial.len()
    );
    let mut seen = std::collections::HashSet::new();
    for v in &acc.violations {
        if seen.insert((v.origin.clone(), v.detail.clone())) {
            println!("--- {} [{}] {}\n    {}", v.origin, v.cfg.unwrap(), util::clip(&v.input.replace('\n', "⏎"), 120), util::clip(&v.detail, 400));
        }
    }
    let _ = Verdict::Inconclusive("x");
}

fn main() {
    fmtx::install_panic_hook();
    let args: Vec<String> = std::env::args().collect();
    match args.get(1).map(|s| s.as_str()) {
        Some("ast") => {
            let text = std::fs::read_to_string(&args[2]).unwrap();
            let root = typst_syntax::parse(&text);
            print!("{}", tree::dump(&root));
            println!("erroneous={}", root.erroneous());
        }
        Some("nf") => {
            let text = std::fs::read_to_string(&args[2]).unwrap();
            let root = typst_syntax::parse(&text);
            println!("{}", nf::nf(&root, nf::NfOpts { sort_imports: false }).join("\n"));
        }
        Some("fmt") => {
            let text = std::fs::read_to_string(&args[2]).unwrap();
            let w: usize = args.get(3).map(|s| s.parse().unwrap()).unwrap_or(80);
            match fmtx::fmt(&text, Cfg::w(w)) {
                fmtx::FmtOut::Ok(s) => print!("{}", s),
                o => println!("{:?}", o),
            }
        }
        Some("explore") => explore(&args[2..]),
        _ => eprintln!("usage"),
    }
}
