mod classifiers;
mod corpus;
mod engine;
mod findings;
mod fmtx;
mod gen;
mod mutate;
mod nf;
mod p_cli;
mod p_import;
mod p_indent;
mod p_off;
mod p_perf;
mod p_pure;
mod p_range;
mod p_total;
mod p_world;
mod pools;
mod props;
mod report;
mod special;
mod streams;
mod tree;
mod treeprops;
mod util;
mod workload;

#[allow(unused_imports)]
use engine::{par_cases, Case};
use fmtx::Cfg;
use treeprops::{TreeCheck, Verdict};

fn pool_by_name(name: &str) -> Vec<Case> {
    match name {
        "fixtures" => corpus::fixtures(),
        "small_fixtures" => corpus::small_fixtures(),
        "snippets" => corpus::snippets(),
        "adversarial" => corpus::adversarial(),
        "programs" => corpus::programs(),
        _ => panic!("unknown pool {}", name),
    }
}

fn explore(args: &[String]) {
    use workload::*;
    let prop = args[0].as_str();
    let pool_name = args[1].as_str();
    let tier = Tier::parse(args.get(2).map(|s| s.as_str()).unwrap_or("quick"));
    let want: usize = args.get(3).map(|s| s.parse().unwrap()).unwrap_or(2000);
    let std = Std::load();
    let pool: Box<dyn pools::Pool> = match pool_name {
        "base" => Box::new(std.base_list()),
        "comment" => Box::new(pools::comment_pool(std.small_bases.clone())),
        "comment_snip" => Box::new(pools::comment_pool(std.snippet_bases.clone())),
        "ws" => Box::new(pools::ws_pool(std.small_bases.clone())),
        "eol" => Box::new(pools::eol_pool(std.small_bases.clone())),
        "eolblank" => Box::new(pools::eolblank_pool(std.small_bases.clone())),
        "paren" => Box::new(pools::paren_pool(std.small_bases.clone())),
        "splice" => Box::new(pools::splice_pool(std.small_bases.clone(), std.frags.clone())),
        "uni" => Box::new(pools::uni_pool(std.small_bases.clone())),
        _ => panic!("unknown pool"),
    };
    println!("pool {} size {}", pool.name(), pool.len());
    let oracle: &treeprops::Oracle = match prop {
        "C01" => &treeprops::oracle_c01,
        "C03" => &treeprops::oracle_c03,
        "C04" => &treeprops::oracle_c04,
        "C11" => &treeprops::oracle_c11,
        "C06" => &treeprops::oracle_c06,
        "C08" => &treeprops::oracle_c08,
        "C09" => &treeprops::oracle_c09,
        "C10" => &treeprops::oracle_c10,
        _ => panic!("unknown prop"),
    };
    let chk = TreeCheck { property: prop, per_output: prop != "C03", oracle };
    let parts = vec![Part { pool, quick: want, thorough: want, cfg: CfgRule::Sweep { tabs: vec![2, 4], reorder: vec![false] } }];
    let (acc, meta) = run_tree_workload(&chk, &parts, tier, util::seed_from_env());
    println!("{}", serde_json::to_string(&meta).unwrap());
    println!(
        "evaluations={} held={} violations={} inconclusive={:?} nontrivial={}",
        acc.evaluations, acc.held, acc.violations.len(), acc.inconclusive, acc.nontrivial.len()
    );
    let mut seen = std::collections::HashSet::new();
    let mut shown = 0;
    for v in &acc.violations {
        if seen.insert(v.input.clone()) {
            shown += 1;
            if shown > 60 { continue; }
            println!("--- {} [{}] {}\n    {}", v.origin, v.cfg.unwrap(), util::clip(&v.input.replace('\n', "⏎"), 160), util::clip(&v.detail, 300));
        }
    }
    println!("distinct violating inputs: {}", seen.len());
    if let Ok(dir) = std::env::var("DUMP_DIR") {
        let _ = std::fs::create_dir_all(&dir);
        let mut seen2 = std::collections::HashSet::new();
        for v in &acc.violations {
            if seen2.insert(v.input.clone()) {
                let _ = std::fs::write(format!("{}/{}.json", dir, v.key()), serde_json::to_string_pretty(&v.to_json()).unwrap());
            }
        }
    }
    let _ = Verdict::Inconclusive("x");
}

/// `tyv check` runs the workload in a child process. An abort inside the formatter (allocation failure, stack exhaustion)
/// escapes `catch_unwind` and kills that child; the child's SIGABRT handler leaves the input it was formatting in a breadcrumb
/// file, and this parent turns it into a verdict: C05 violation when the input also kills an isolated worker, inconclusive otherwise.
fn supervise(args: &[String]) -> i32 {
    use std::os::unix::process::ExitStatusExt;
    let prop = args.get(2).cloned().unwrap_or_default();
    let tier = args.get(3).cloned().unwrap_or_else(|| "quick".into());
    let crumb = util::verif_dir().join("target").join(format!("crash-crumb-{}-{}.bin", prop, std::process::id()));
    let _ = std::fs::create_dir_all(crumb.parent().unwrap());
    let status = std::process::Command::new(std::env::current_exe().unwrap())
        .args(&args[1..])
        .env("TYV_INNER", "1")
        .env("TYV_CRUMB", &crumb)
        .status();
    let Ok(status) = status else {
        println!("INCONCLUSIVE property={} reason=could-not-start-the-check-process", prop);
        return 2;
    };
    if let Some(c) = status.code() {
        if (0..=2).contains(&c) {
            let _ = std::fs::remove_file(&crumb);
            return c;
        }
    }
    let how = match status.signal() {
        Some(s) => format!("signal {}", s),
        None => format!("exit status {:?}", status.code()),
    };
    let found = fmtx::read_crash_crumb(crumb.to_str().unwrap_or(""));
    let _ = std::fs::remove_file(&crumb);
    let Some((cfg, text)) = found else {
        println!("INCONCLUSIVE property={} reason=check-process-died({}) and left no breadcrumb naming the input", prop, how);
        return 2;
    };
    match p_total::dies_in_isolation(&text, cfg) {
        Some((true, worker)) if prop == "C05" => {
            let mut acc = engine::Acc::new();
            acc.evaluations = 1;
            acc.distinct_inputs.insert(util::hash64(&text));
            acc.nontrivial.insert(util::hash64(&text));
            acc.violations.push(engine::Violation {
                property: "C05".into(),
                input: text,
                cfg: Some(cfg),
                origin: "breadcrumb of the aborted check process".into(),
                oracle: "no-abort".into(),
                detail: format!("the check process died ({}) while formatting this input; an isolated worker formatting it alone dies too: {}", how, worker),
                extra: serde_json::Value::Null,
            });
            let mut meta = engine::RunMeta::new("C05", &tier, "exploration", "RUN ABORTED: the workload process was killed while formatting the input below, so only that call is accounted for here");
            meta.assumptions = vec!["the breadcrumb is written by the SIGABRT handler of the thread that was formatting".into()];
            report::finish(meta, acc, 0)
        }
        Some((true, worker)) => {
            let path = util::verif_dir().join("replays").join(format!("{}-abort-input.typ", prop));
            let _ = std::fs::create_dir_all(path.parent().unwrap());
            let _ = std::fs::write(&path, &text);
            println!(
                "INCONCLUSIVE property={} reason=check-process-died({}) while formatting {} [{}]; an isolated worker dies too ({}). An abort inside the formatter is a C05 violation: run the C05 check.",
                prop, how, path.display(), cfg, worker
            );
            2
        }
        _ => {
            println!("INCONCLUSIVE property={} reason=check-process-died({}) and the input named by the breadcrumb does not kill an isolated worker", prop, how);
            2
        }
    }
}

#[global_allocator]
static GLOBAL: p_perf::CountingAlloc = p_perf::CountingAlloc;

fn main() {
    fmtx::install_panic_hook();
    let args: Vec<String> = std::env::args().collect();
    if args.get(1).map(|s| s.as_str()) == Some("check") && std::env::var_os("TYV_INNER").is_none() {
        std::process::exit(supervise(&args));
    }
    if let Ok(p) = std::env::var("TYV_CRUMB") {
        fmtx::install_crash_crumb(&p);
    }
    if matches!(args.get(1).map(|s| s.as_str()), Some("check" | "triage" | "explore" | "replay")) {
        let _ = rayon::ThreadPoolBuilder::new().stack_size(64 << 20).build_global();
    }
    match args.get(1).map(|s| s.as_str()) {
        Some("ast") => {
            let text = std::fs::read_to_string(&args[2]).unwrap();
            let root = typst_syntax::parse(&text);
            print!("{}", tree::dump(&root));
            println!("erroneous={}", root.erroneous());
        }
        Some("keys") => {
            // comment position keys of a file (debugging aid for known_findings.json)
            let text = std::fs::read_to_string(&args[2]).unwrap();
            let root = typst_syntax::parse(&text);
            for l in tree::leaves(&root).iter().filter(|l| tree::is_comment(l.kind())) {
                println!("{:>5} {:<40} {:?}", l.start, classifiers::comment_key(&root, l.start).unwrap_or_default(), util::clip(&text[l.start..l.end()], 30));
            }
        }
        Some("nf") => {
            let text = std::fs::read_to_string(&args[2]).unwrap();
            let root = typst_syntax::parse(&text);
            println!("{}", nf::nf(&root, nf::NfOpts { sort_imports: false }).join("\n"));
        }
        Some("fmt") => {
            let text = std::fs::read_to_string(&args[2]).unwrap();
            let w: usize = args.get(3).map(|s| s.parse().unwrap()).unwrap_or(80);
            match fmtx::fmt(&text, Cfg::w(w)) {
                fmtx::FmtOut::Ok(s) => print!("{}", s),
                o => println!("{:?}", o),
            }
        }
        Some("explore") => explore(&args[2..]),
        Some("check") => {
            let code = props::check(&args[2], workload::Tier::parse(&args[3]));
            std::process::exit(code);
        }
        Some("worker-depth") => std::process::exit(p_total::worker_main(&args[2..])),
        #[cfg(feature = "world")]
        Some("worker-c02") => std::process::exit(p_world::worker_main()),
        Some("worker-fmt") => std::process::exit(p_pure::worker_fmt_main(&args[2..])),
        Some("checked-slice") => std::process::exit(p_total::checked_slice_main(
            args.get(2).and_then(|s| s.parse().ok()).unwrap_or(0),
            args.get(3).map(|s| s == "thorough").unwrap_or(false),
        )),
        Some("checked-one") => std::process::exit(p_total::checked_one_main(&args[2..])),
        Some("worker-crash") => std::process::exit(p_total::worker_crash_main(&args[2..])),
        Some("stress") => {
            let t: usize = args.get(2).map(|s| s.parse().unwrap()).unwrap_or(4);
            let r: usize = args.get(3).map(|s| s.parse().unwrap()).unwrap_or(3);
            let n: usize = args.get(4).map(|s| s.parse().unwrap()).unwrap_or(8);
            std::process::exit(p_pure::stress_main(t, r, n));
        }
        Some("san-total") => {
            // sequential replay of the adversarial / hostile / snippet sets for the ASan and Miri builds
            let shard: usize = args[2].parse().unwrap();
            let shards: usize = args[3].parse().unwrap();
            let mini = args.get(4).map(|s| s == "mini").unwrap_or(false);
            // "midi": every fifth item up to 600 bytes at two configurations — sized for valgrind memcheck (~25x)
            let midi = args.get(4).map(|s| s == "midi").unwrap_or(false);
            let mut cases = corpus::adversarial();
            cases.extend(corpus::hostile());
            cases.extend(corpus::repro_open());
            cases.extend(corpus::snippets());
            let mut acc = engine::Acc::new();
            let mut n = 0;
            for (i, c) in cases.iter().enumerate() {
                if i % shards != shard || (mini && (i % 19 != 0 || c.text.len() > 120)) || (midi && ((i / shards) % 5 != 0 || c.text.len() > 600)) {
                    continue;
                }
                n += 1;
                let cfgs: &[Cfg] = if mini { &[Cfg { width: 20, tab: 2, reorder: false }] } else if midi { &[Cfg { width: 40, tab: 2, reorder: true }, Cfg { width: 0, tab: 3, reorder: false }] } else { &[Cfg { width: 80, tab: 2, reorder: false }, Cfg { width: 0, tab: 2, reorder: true }, Cfg { width: fmtx::W_INF, tab: 7, reorder: false }] };
                for &cfg in cfgs {
                    p_total::observe(&c.text, cfg, &c.origin, &mut acc);
                }
            }
            println!("SAN-TOTAL shard={}/{} items={} calls={} oracle_violations={}", shard, shards, n, acc.evaluations, acc.violations.len());
        }
        Some("cli-scenario") => {
            // print the scenario JSON of a named reproducer (used when writing known_findings.json)
            use p_cli::*;
            let unf = |rel: &str| FileSpec { rel: rel.into(), kind: Kind::File, content: b"#let   x  =  1\nText MARKERabc here.\n".to_vec(), mode: 0o644, class: "unformatted".into() };
            let sc = match args[2].as_str() {
                "dot-root-inplace" => Scenario { files: vec![unf("a.typ"), unf("sub/b.typ")], steps: vec![Step { args: vec!["format-all".into(), ".".into()], stdin: None, cwd: String::new() }] },
                "dot-root-check" => Scenario { files: vec![unf("a.typ"), unf("sub/b.typ")], steps: vec![Step { args: vec!["--check".into(), "format-all".into(), "./".into()], stdin: None, cwd: String::new() }] },
                "hidden-root-inplace" => Scenario { files: vec![unf(".cfg/a.typ")], steps: vec![Step { args: vec!["format-all".into(), ".cfg".into()], stdin: None, cwd: String::new() }] },
                "f14-unreadable" => Scenario {
                    files: vec![unf("a.typ"), FileSpec { rel: "b.typ".into(), kind: Kind::File, content: b"#let   y = 2 MARKERdef\n".to_vec(), mode: 0o000, class: "unreadable".into() }],
                    steps: vec![Step { args: vec!["--check".into(), "format-all".into()], stdin: None, cwd: String::new() }],
                },
                _ => panic!("unknown scenario"),
            };
            println!("{}", serde_json::to_string(&sc.to_json()).unwrap());
        }
        Some("c02-loop") => {
            let text = std::fs::read_to_string(&args[2]).unwrap();
            let n: usize = args[3].parse().unwrap();
            for i in 0..n {
                let _ = p_world::violated(&format!("{}\n#let unused{} = {}", text, i % 7, i), Cfg::w(80));
                if i % 200 == 0 {
                    let rss = std::fs::read_to_string("/proc/self/statm").unwrap();
                    println!("iter {} statm {}", i, rss.trim());
                }
            }
        }
        #[cfg(feature = "world")]
        Some("c02-one") => {
            let text = std::fs::read_to_string(&args[2]).unwrap();
            let r = p_world::violated(&text, Cfg::w(80));
            println!("C02-ONE {:?}", r);
            println!("compile summary of the original: {}", util::clip(&format!("{:?}", p_world::compile_summary(&text)), 300));
        }
        Some("replay") => std::process::exit(props::replay(&args[2])),
        Some("triage") => props::triage(&args[2], workload::Tier::parse(args.get(3).map(|s| s.as_str()).unwrap_or("thorough"))),
        Some("ladder") => {
            // measurements along one pure ladder (debugging aid): tyv ladder <family> [width]
            let f: usize = args[2].parse().unwrap();
            let w: usize = args.get(3).map(|s| s.parse().unwrap()).unwrap_or(80);
            let h = std::thread::Builder::new().stack_size(256 << 20).spawn(move || {
                for d in [1usize, 2, 4, 8, 16, 32, 64, 128, 256] {
                    let t = gen::nest_pure(f, d);
                    match p_perf::measure(&t, Cfg::w(w)) {
                        Some(m) => println!("depth {:>4} len {:>6} nodes {:>6} conversions {:>7} alloc {:>10} cpu_us {:>8}", d, t.len(), m.nodes, m.total(), m.alloc, m.cpu_ns / 1000),
                        None => println!("depth {:>4} not formattable", d),
                    }
                }
            });
            let _ = h.unwrap().join();
        }
        Some("nest") => {
            // print the pure ladder families at a given depth (debugging aid)
            let d: usize = args.get(2).map(|s| s.parse().unwrap()).unwrap_or(3);
            for f in 0..gen::NEST_FAMILIES_ALL {
                let t = gen::nest_pure(f, d);
                println!("{:>2} parses={} {}", f, tree::parse_ok(&t).is_some(), t);
            }
        }
        Some("gen") => {
            let n: u64 = args.get(3).map(|s| s.parse().unwrap()).unwrap_or(5);
            for p in gen::all_gen_pools() {
                if p.name() == args[2] {
                    for i in 0..n as usize {
                        println!("---- {}#{}\n{}", p.name(), i, p.get(i).map(|c| c.text).unwrap_or_else(|| "<rejected>".into()));
                    }
                }
            }
        }
        Some("mut") => {
            // sample a mutation pool over the snippet+adversarial+small-fixture bases (debugging aid): tyv mut M-PPAREN [n]
            let std = workload::Std::load();
            let sb = std.small_bases.clone();
            let pool: Box<dyn pools::Pool> = match args[2].as_str() {
                "M-PPAREN" => Box::new(pools::pattern_paren_pool(sb)),
                "M-PAREN" => Box::new(pools::paren_pool(sb)),
                "M-OFF4" => Box::new(p_off::off4_pool(std.snippet_bases.clone())),
                "M-OFF3" => Box::new(p_off::off3_pool(sb)),
                "M-OFF" => Box::new(p_off::off_pool(sb)),
                _ => Box::new(pools::comment_pool(sb)),
            };
            let n: usize = args.get(3).map(|s| s.parse().unwrap()).unwrap_or(10);
            let total = pool.len();
            let admitted = (0..total).filter(|&i| pool.get(i).is_some()).count();
            println!("pool {} size {} admitted {}", pool.name(), total, admitted);
            let mut shown = 0;
            let step = (total / (n * 3).max(1)).max(1);
            let mut i = 0;
            while i < total && shown < n {
                if let Some(c) = pool.get(i) {
                    println!("---- {}\n{}", c.origin, c.text);
                    shown += 1;
                }
                i += step;
            }
        }
        Some("show") => {
            let v: serde_json::Value = serde_json::from_str(&std::fs::read_to_string(&args[2]).unwrap()).unwrap();
            let input = v["input"].as_str().unwrap();
            let cfg = Cfg::from_json(&v["cfg"]);
            println!("== property {} oracle {} cfg [{}] origin {}", v["property"], v["oracle"], cfg, v["origin"]);
            println!("== detail: {}", v["detail"].as_str().unwrap_or(""));
            println!("== input:\n{}\n== output:", input);
            match fmtx::fmt(input, cfg) {
                fmtx::FmtOut::Ok(y) => {
                    println!("{}", y);
                    if let fmtx::FmtOut::Ok(y2) = fmtx::fmt(&y, cfg) {
                        if y2 != y {
                            println!("== second pass:\n{}", y2);
                        }
                    }
                }
                o => println!("{:?}", o),
            }
        }
        _ => eprintln!("usage"),
    }
}
