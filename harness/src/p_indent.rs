//! C12 — indentation is governed solely by the configured indent unit.

use serde_json::json;
use typst_syntax::{SyntaxKind as K, SyntaxNode};

use crate::engine::{Acc, Case, Violation};
use crate::fmtx::{self, Cfg, FmtOut};
use crate::tree;
use crate::util;

/// Lines (0-based) whose indentation is copied from the source: continuation lines of block comments, strings,
/// raw text, and of the node that follows an `@typstyle off` directive.
pub fn exempt_lines(root: &SyntaxNode, text: &str) -> std::collections::BTreeSet<usize> {
    let mut ex = std::collections::BTreeSet::new();
    // line index of byte offset
    let mut starts = vec![0usize];
    for (i, b) in text.bytes().enumerate() {
        if b == b'\n' {
            starts.push(i + 1);
        }
    }
    let line_of = |off: usize| match starts.binary_search(&off) {
        Ok(i) => i,
        Err(i) => i - 1,
    };
    let mut mark = |a: usize, b: usize, ex: &mut std::collections::BTreeSet<usize>| {
        // continuation lines of [a, b)
        let la = line_of(a);
        let lb = line_of(b.saturating_sub(1).max(a));
        for l in la + 1..=lb {
            ex.insert(l);
        }
    };
    // tokens
    tree::walk(root, &mut |n, off, _| {
        if matches!(n.kind(), K::BlockComment | K::Str | K::Raw) {
            mark(off, off + n.len(), &mut ex);
        }
    });
    // nodes after a directive
    fn rec(n: &SyntaxNode, off: &mut usize, out: &mut Vec<(usize, usize)>) {
        let mut disable_next = false;
        if n.children().len() == 0 {
            *off += n.len();
            return;
        }
        let node_start = *off;
        for c in n.children() {
            let k = c.kind();
            let start = *off;
            if tree::is_comment(k) {
                if c.text().contains("@typstyle off") {
                    disable_next = true;
                }
                *off += c.len();
                continue;
            }
            if disable_next && !matches!(k, K::Space | K::Hash) {
                if k == K::Code {
                    // a protected code body: the printer reproduces the whole `{ … }` block, so every line
                    // after the one holding `{` has source indentation (weaker reading, DESIGN.md §8)
                    out.push((node_start, node_start + n.len()));
                } else {
                    out.push((start, start + c.len()));
                }
                disable_next = false;
            }
            rec(c, off, out);
        }
    }
    let mut regions = vec![];
    let mut off = 0;
    rec(root, &mut off, &mut regions);
    for (a, b) in regions {
        mark(a, b, &mut ex);
    }
    ex
}

fn split_lead(line: &str) -> (usize, &str) {
    let lead = line.len() - line.trim_start_matches(' ').len();
    (lead, &line[lead..])
}

/// Check one input: Some(detail) on violation.
pub fn check_input(x: &str, acc: &mut Acc) -> Result<bool, String> {
    let mut outs: Vec<(usize, String)> = vec![];
    for t in 1..=8usize {
        match fmtx::fmt(x, Cfg::new(fmtx::W_INF, t, false)) {
            FmtOut::Ok(y) => outs.push((t, y)),
            FmtOut::Refused => return Err("refused".into()),
            FmtOut::Panic(p) => return Err(format!("panic {}", p)),
        }
        acc.evaluations += 1;
    }
    let (_, y1) = &outs[0];
    let Some(p1) = tree::parse_ok(y1) else { return Err("output-unparseable(see C04)".into()) };
    let ex1 = exempt_lines(&p1, y1);
    let l1: Vec<&str> = y1.split('\n').collect();
    let mut nontrivial = false;
    for (t, yt) in outs.iter().skip(1) {
        let lt: Vec<&str> = yt.split('\n').collect();
        if lt.len() != l1.len() {
            return Ok(viol(acc, x, *t, format!("line count differs: {} lines at unit 1, {} at unit {}", l1.len(), lt.len(), t)));
        }
        let Some(pt) = tree::parse_ok(yt) else { return Err("output-unparseable(see C04)".into()) };
        let ext = exempt_lines(&pt, yt);
        if ext != ex1 {
            return Ok(viol(acc, x, *t, format!("set of source-indented (exempt) lines differs between unit 1 and unit {}: {:?} vs {:?}", t, ex1, ext)));
        }
        for (i, (a, b)) in l1.iter().zip(lt.iter()).enumerate() {
            if ex1.contains(&i) {
                continue;
            }
            let (k, ra) = split_lead(a);
            let (lead, rb) = split_lead(b);
            acc.count("lines_compared", 1);
            if ra != rb {
                return Ok(viol(acc, x, *t, format!("line {} differs beyond leading spaces: unit 1 {:?} vs unit {} {:?}", i + 1, util::clip(a, 80), t, util::clip(b, 80))));
            }
            if ra.is_empty() {
                continue;
            }
            if lead != k * t {
                return Ok(viol(
                    acc,
                    x,
                    *t,
                    format!(
                        "line {} ({:?}): {} leading spaces at unit 1 (level {}), but {} at unit {} (expected {})",
                        i + 1,
                        util::clip(ra, 50),
                        k,
                        k,
                        lead,
                        t,
                        k * t
                    ),
                ));
            }
            if k > 0 {
                nontrivial = true;
            }
        }
    }
    Ok(nontrivial)
}

fn viol(acc: &mut Acc, x: &str, t: usize, detail: String) -> bool {
    acc.violations.push(Violation {
        property: "C12".into(),
        input: x.to_string(),
        cfg: Some(Cfg::new(fmtx::W_INF, t, false)),
        origin: String::new(),
        oracle: "indent-multiple".into(),
        detail,
        extra: serde_json::Value::Null,
    });
    true
}

pub fn run_case(case: &Case, acc: &mut Acc) {
    if tree::parse_ok(&case.text).is_none() {
        acc.inconclusive("input-erroneous");
        return;
    }
    let before = acc.violations.len();
    acc.distinct_inputs.insert(util::hash64(&case.text));
    match check_input(&case.text, acc) {
        Ok(nontrivial) => {
            if acc.violations.len() > before {
                for v in acc.violations[before..].iter_mut() {
                    v.origin = case.origin.clone();
                }
                acc.nontrivial.insert(util::hash64(&case.text));
            } else {
                acc.held += 8;
                if nontrivial {
                    acc.nontrivial.insert(util::hash64(&case.text));
                    if acc.samples.len() < 3 && case.text.len() < 160 {
                        let y2 = fmtx::fmt(&case.text, Cfg::new(fmtx::W_INF, 2, false));
                        let y5 = fmtx::fmt(&case.text, Cfg::new(fmtx::W_INF, 5, false));
                        acc.sample(json!({"input": case.text, "origin": case.origin, "unit2": y2.ok(), "unit5": y5.ok()}));
                    }
                }
            }
        }
        Err(r) => acc.inconclusive(if r.starts_with("panic") { "panic(see C05)" } else if r == "refused" { "refused" } else { "output-unparseable(see C04)" }),
    }
}

pub fn violated(input: &str) -> Option<bool> {
    tree::parse_ok(input)?;
    let mut acc = Acc::new();
    match check_input(input, &mut acc) {
        Ok(_) => Some(!acc.violations.is_empty()),
        Err(_) => None,
    }
}
