//! Turning an accumulator into verdict lines, replay files, evidence and an exit code.

use std::collections::BTreeMap;
use std::io::Write;

use serde_json::{json, Value};

use crate::engine::{Acc, RunMeta, Violation};
use crate::findings;
use crate::util;

pub const EXIT_HELD: i32 = 0;
pub const EXIT_VIOLATION: i32 = 1;
pub const EXIT_INCONCLUSIVE: i32 = 2;

pub fn write_replay(v: &Violation) -> String {
    let dir = util::verif_dir().join("replays").join(&v.property);
    let _ = std::fs::create_dir_all(&dir);
    let path = dir.join(format!("{}.json", v.key()));
    let _ = std::fs::write(&path, serde_json::to_string_pretty(&v.to_json()).unwrap());
    path.to_string_lossy().to_string()
}

/// Finish a run: classify violations, print verdict lines, write evidence, return exit code.
pub fn finish(meta: RunMeta, mut acc: Acc, min_conclusive: u64) -> i32 {
    let db = findings::load();
    let mut known: BTreeMap<String, (u64, String)> = BTreeMap::new();
    let mut fresh: Vec<Violation> = Vec::new();
    let mut seen = std::collections::HashSet::new();
    // one report per (input, oracle): the first configuration that showed it
    acc.violations.sort_by(|a, b| (a.input.len(), &a.input, a.cfg).cmp(&(b.input.len(), &b.input, b.cfg)));
    let raw_violations = acc.violations.len();
    for v in acc.violations.drain(..) {
        if !seen.insert(util::hash64_parts(&[&v.input, &v.oracle, &v.extra.to_string()])) {
            continue;
        }
        match findings::classify(&db, &v) {
            Some(id) => {
                let e = known.entry(id).or_insert((0, String::new()));
                e.0 += 1;
                if e.1.is_empty() {
                    e.1 = format!("{} [{}]", util::clip(&v.input.replace('\n', "⏎"), 60), v.cfg.map(|c| c.to_string()).unwrap_or_default());
                }
            }
            None => fresh.push(v),
        }
    }
    let out = std::io::stdout();
    let mut out = out.lock();
    // Known findings: one line per listed open finding of this property that was met in this run.
    let mut repro_confirmed = 0u64;
    for f in db.iter().filter(|f| f.status == "open" && f.properties.iter().any(|p| p == &meta.property)) {
        // the finding's own reproducers for this property are part of every run
        let mut still = false;
        for r in f.repros.iter().filter(|r| r["property"].as_str() == Some(meta.property.as_str())) {
            let v = crate::props::violation_from_json(r);
            if crate::props::violated(&v, &v.input.clone()) == Some(true) {
                still = true;
                repro_confirmed += 1;
                break;
            }
        }
        match known.get(&f.id) {
            Some((n, eg)) => {
                let _ = writeln!(
                    out,
                    "KNOWN-FINDING: property={} {} — {} (met {} times this run, e.g. {}{})",
                    meta.property,
                    f.id,
                    util::clip(&f.what, 400),
                    n,
                    eg,
                    if still { "; reproducer still fails" } else { "" }
                );
            }
            None if still => {
                let _ = writeln!(out, "KNOWN-FINDING: property={} {} — {} (reproducer still fails)", meta.property, f.id, util::clip(&f.what, 400));
            }
            None => {}
        }
    }
    acc.count("known_finding_reproducers_confirmed", repro_confirmed);
    fresh.sort_by(|a, b| (a.input.len(), &a.input).cmp(&(b.input.len(), &b.input)));
    let total_fresh = fresh.len();
    for v in fresh.iter().take(25) {
        let path = write_replay(v);
        let _ = writeln!(out, "VIOLATION property={} replay={}", v.property, path);
        let _ = writeln!(
            out,
            "  oracle={} cfg=[{}] origin={} detail={}",
            v.oracle,
            v.cfg.map(|c| c.to_string()).unwrap_or_default(),
            v.origin,
            util::clip(&v.detail.replace('\n', "⏎"), 300)
        );
    }
    if total_fresh > 25 {
        for v in fresh.iter().skip(25).take(2000) {
            write_replay(v);
        }
        let _ = writeln!(out, "  … {} more violations (replay files written for up to 2000)", total_fresh - 25);
    }

    let conclusive = acc.held + total_fresh as u64 + known.values().map(|x| x.0).sum::<u64>();
    let inconclusive_total: u64 = acc.inconclusive.values().sum();
    let wall = meta.start.elapsed().as_secs_f64();

    let mut coverage = json!({
        "evaluations": acc.evaluations,
        "distinct_nontrivial": acc.nontrivial.len(),
        "rule": meta.rule,
        "samples": acc.samples,
        "distinct_inputs": acc.distinct_inputs.len(),
        "conclusive": conclusive,
        "held": acc.held,
        "inconclusive": inconclusive_total,
        "inconclusive_by_reason": acc.inconclusive,
        "observed": acc.counters,
        "known_findings_met": known.iter().map(|(k, v)| (k.clone(), json!(v.0))).collect::<serde_json::Map<String, Value>>(),
        "pools": meta.pools,
        "exhaustive": meta.exhaustive,
    });
    if coverage["samples"].as_array().map(|a| a.is_empty()).unwrap_or(true) {
        coverage["samples"] = json!([]);
    }
    let ev = json!({
        "property_id": meta.property,
        "tier": meta.tier,
        "seed": meta.seed as i64,
        "level": meta.level,
        "coverage": coverage,
        "assumptions": meta.assumptions,
        "wall_s": wall,
        "violations": total_fresh,
        "violating_executions_before_dedup": raw_violations,
    });
    let evdir = util::verif_dir().join("evidence");
    let _ = std::fs::create_dir_all(&evdir);
    let evpath = evdir.join(format!("{}.json", meta.property));
    let _ = std::fs::write(&evpath, serde_json::to_string_pretty(&ev).unwrap());

    let _ = writeln!(
        out,
        "SUMMARY property={} tier={} seed={} evaluations={} conclusive={} held={} known={} new_violations={} inconclusive={} distinct_nontrivial={} wall_s={:.1}",
        meta.property,
        meta.tier,
        meta.seed,
        acc.evaluations,
        conclusive,
        acc.held,
        known.values().map(|x| x.0).sum::<u64>(),
        total_fresh,
        inconclusive_total,
        acc.nontrivial.len(),
        wall
    );
    if total_fresh > 0 {
        return EXIT_VIOLATION;
    }
    if conclusive < min_conclusive || acc.nontrivial.len() < 2 {
        let _ = writeln!(
            out,
            "INCONCLUSIVE property={} reason=too-few-observations conclusive={} floor={}",
            meta.property, conclusive, min_conclusive
        );
        return EXIT_INCONCLUSIVE;
    }
    EXIT_HELD
}
