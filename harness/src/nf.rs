//! Layout-erasing normal form N of a typst-syntax tree (DESIGN.md §6.1).
//!
//! N(tree) is a flat token vector. Two trees are "equivalent" (C01) iff their token vectors are equal.

use typst_syntax::{ast, ast::AstNode, SyntaxKind as K, SyntaxNode};

#[derive(Clone, Copy, PartialEq, Eq, Debug)]
pub enum M {
    Markup,
    Code,
    Math,
}

#[derive(Clone, Copy)]
pub struct NfOpts {
    /// compare import items as multisets (reorder_import_items = true)
    pub sort_imports: bool,
}

pub fn nf(root: &SyntaxNode, opts: NfOpts) -> Vec<String> {
    let mut out = Vec::new();
    let mut cx = Cx { opts };
    cx.node(root, M::Markup, Pos::Root, &mut out);
    out
}

#[derive(Clone, Copy, PartialEq, Eq)]
enum Pos {
    Root,
    /// markup whose edges Typst trims (heading / list / enum / term bodies)
    TrimmedBody,
    /// markup inside [] or strong/emph
    Enclosed,
    ClosureBody,
    Callee,
    Other,
}

struct Cx {
    opts: NfOpts,
}

fn is_comment(k: K) -> bool {
    matches!(k, K::LineComment | K::BlockComment)
}

fn is_block_item(tok: &str) -> bool {
    tok == "(ListItem" || tok == "(EnumItem" || tok == "(TermItem"
}

fn collapse_ws(s: &str) -> String {
    let mut out = String::with_capacity(s.len());
    let mut in_ws = false;
    for c in s.chars() {
        if c.is_whitespace() {
            if !in_ws {
                out.push(' ');
            }
            in_ws = true;
        } else {
            out.push(c);
            in_ws = false;
        }
    }
    out
}

impl Cx {
    fn leaf(&self, n: &SyntaxNode, out: &mut Vec<String>) {
        if n.kind() == K::Shebang {
            // a shebang line is comment-like: blanks at its end are layout
            out.push(format!("Shebang:{}", n.text().trim_end()));
            return;
        }
        out.push(format!("{:?}:{}", n.kind(), n.text()));
    }

    fn node(&mut self, n: &SyntaxNode, mode: M, pos: Pos, out: &mut Vec<String>) {
        let k = n.kind();
        if n.children().len() == 0 {
            if k == K::Markup {
                out.push("(Markup".into());
                out.push(")".into());
                return;
            }
            if is_comment(k) || k == K::Space {
                return;
            }
            self.leaf(n, out);
            return;
        }
        match k {
            K::Markup => self.markup(n, pos, out),
            K::Equation => {
                let block = n.cast::<ast::Equation>().map(|e| e.block()).unwrap_or(false);
                out.push(format!("(Equation block={}", block));
                for c in n.children() {
                    match c.kind() {
                        K::Dollar | K::Space => {}
                        kk if is_comment(kk) => {}
                        _ => self.node(c, M::Math, Pos::Other, out),
                    }
                }
                out.push(")".into());
            }
            K::Math | K::MathDelimited => {
                out.push(format!("({:?}", k));
                self.math_children(n, out);
                out.push(")".into());
            }
            K::MathAttach | K::MathFrac | K::MathRoot | K::MathPrimes => {
                out.push(format!("({:?}", k));
                let mut hash = false;
                for c in n.children() {
                    let ck = c.kind();
                    if ck == K::Space || is_comment(ck) {
                        continue;
                    }
                    let m = if hash { M::Code } else { M::Math };
                    hash = ck == K::Hash;
                    self.node(c, m, Pos::Other, out);
                }
                out.push(")".into());
            }
            K::Raw => self.raw(n, out),
            K::Parenthesized => {
                // transparent, except where parentheses select a different call semantics
                let inner = n
                    .children()
                    .find(|c| !matches!(c.kind(), K::LeftParen | K::RightParen | K::Space) && !is_comment(c.kind()));
                match inner {
                    Some(inner) => {
                        if pos == Pos::Callee && inner.kind() == K::FieldAccess {
                            out.push("(ParenCallee".into());
                            self.node(inner, M::Code, Pos::Other, out);
                            out.push(")".into());
                        } else {
                            // keep the position for nested parens / closure bodies
                            let p = if matches!(pos, Pos::Callee | Pos::ClosureBody) { pos } else { Pos::Other };
                            self.node(inner, M::Code, p, out);
                        }
                    }
                    None => {
                        out.push("(Parenthesized".into());
                        out.push(")".into());
                    }
                }
            }
            K::CodeBlock if pos == Pos::ClosureBody && single_expr_block(n).is_some() => {
                let e = single_expr_block(n).unwrap();
                self.node(e, M::Code, Pos::Other, out);
            }
            K::FuncCall => {
                out.push("(FuncCall".into());
                let mut first = true;
                let mut hash = false;
                for c in n.children() {
                    let ck = c.kind();
                    if ck == K::Space || is_comment(ck) {
                        continue;
                    }
                    if ck == K::Args {
                        self.args(c, mode, out);
                    } else {
                        let m = if hash { M::Code } else { mode_for_child(mode) };
                        hash = ck == K::Hash;
                        let p = if first { Pos::Callee } else { Pos::Other };
                        self.node(c, m, p, out);
                    }
                    first = false;
                }
                out.push(")".into());
            }
            K::Args => self.args(n, mode, out),
            K::Closure => {
                out.push("(Closure".into());
                let mut seen_arrow_or_eq = false;
                for c in n.children() {
                    let ck = c.kind();
                    if ck == K::Space || is_comment(ck) {
                        continue;
                    }
                    if ck == K::Arrow || ck == K::Eq {
                        seen_arrow_or_eq = true;
                        self.leaf(c, out);
                        continue;
                    }
                    let p = if seen_arrow_or_eq { Pos::ClosureBody } else { Pos::Other };
                    self.node(c, M::Code, p, out);
                }
                out.push(")".into());
            }
            K::ModuleImport => {
                out.push("(ModuleImport".into());
                for c in n.children() {
                    let ck = c.kind();
                    if matches!(ck, K::Space | K::LeftParen | K::RightParen | K::Comma) || is_comment(ck) {
                        continue;
                    }
                    if ck == K::ImportItems {
                        self.import_items(c, out);
                    } else {
                        self.node(c, M::Code, Pos::Other, out);
                    }
                }
                out.push(")".into());
            }
            K::ContentBlock => {
                out.push("(ContentBlock".into());
                for c in n.children() {
                    if c.kind() == K::Markup {
                        self.node(c, M::Markup, Pos::Enclosed, out);
                    }
                }
                out.push(")".into());
            }
            K::Strong | K::Emph => {
                out.push(format!("({:?}", k));
                for c in n.children() {
                    if c.kind() == K::Markup {
                        self.node(c, M::Markup, Pos::Enclosed, out);
                    }
                }
                out.push(")".into());
            }
            K::Heading | K::ListItem | K::EnumItem | K::TermItem => {
                out.push(format!("({:?}", k));
                for c in n.children() {
                    let ck = c.kind();
                    if ck == K::Space || is_comment(ck) {
                        continue;
                    }
                    if ck == K::Parbreak {
                        out.push("PAR".into());
                        continue;
                    }
                    if ck == K::Markup {
                        self.node(c, M::Markup, Pos::TrimmedBody, out);
                    } else {
                        self.node(c, M::Markup, Pos::Other, out);
                    }
                }
                out.push(")".into());
            }
            K::Array | K::Dict | K::Params | K::Destructuring | K::CodeBlock | K::Code => {
                // in math, implicit arrays (rows of 2-d args) keep their commas except a trailing one
                if k == K::Array && mode == M::Math {
                    out.push("(MathArray".into());
                    self.math_arg_children(n, out);
                    out.push(")".into());
                    return;
                }
                out.push(format!("({:?}", k));
                for c in n.children() {
                    let ck = c.kind();
                    if matches!(
                        ck,
                        K::Space
                            | K::LeftParen
                            | K::RightParen
                            | K::LeftBrace
                            | K::RightBrace
                            | K::Comma
                            | K::Semicolon
                    ) || is_comment(ck)
                    {
                        continue;
                    }
                    if k == K::Dict && ck == K::Colon {
                        continue;
                    }
                    self.node(c, M::Code, Pos::Other, out);
                }
                out.push(")".into());
            }
            _ => {
                // generic inner node: drop trivia, keep everything else
                out.push(format!("({:?}", k));
                let mut hash = false;
                for c in n.children() {
                    let ck = c.kind();
                    if ck == K::Space || is_comment(ck) {
                        continue;
                    }
                    let m = if hash { M::Code } else { mode_for_child(mode) };
                    hash = ck == K::Hash;
                    self.node(c, m, Pos::Other, out);
                }
                out.push(")".into());
            }
        }
    }

    fn math_children(&mut self, n: &SyntaxNode, out: &mut Vec<String>) {
        let mut hash = false;
        let mut last_space = false;
        for c in n.children() {
            let ck = c.kind();
            if is_comment(ck) {
                continue;
            }
            if ck == K::Space {
                if !last_space {
                    out.push("S".into());
                }
                last_space = true;
                continue;
            }
            last_space = false;
            let m = if hash { M::Code } else { M::Math };
            hash = ck == K::Hash;
            self.node(c, m, Pos::Other, out);
        }
    }

    /// children of math Args / implicit math Array: spaces dropped, separators kept except a trailing comma
    fn math_arg_children(&mut self, n: &SyntaxNode, out: &mut Vec<String>) {
        let kids: Vec<&SyntaxNode> = n
            .children()
            .filter(|c| c.kind() != K::Space && !is_comment(c.kind()))
            .collect();
        let mut hash = false;
        for (i, c) in kids.iter().enumerate() {
            let ck = c.kind();
            if ck == K::Comma {
                // trailing comma: followed by nothing, `)` or `;`
                let next = kids.get(i + 1).map(|x| x.kind());
                if matches!(next, None | Some(K::RightParen) | Some(K::Semicolon)) {
                    continue;
                }
            }
            if ck == K::ContentBlock {
                self.node(c, M::Code, Pos::Other, out);
                continue;
            }
            let m = if hash { M::Code } else { M::Math };
            hash = ck == K::Hash;
            self.node(c, m, Pos::Other, out);
        }
    }

    fn args(&mut self, n: &SyntaxNode, mode: M, out: &mut Vec<String>) {
        if mode == M::Math {
            out.push("(MathArgs".into());
            self.math_arg_children(n, out);
            out.push(")".into());
            return;
        }
        out.push("(Args".into());
        for c in n.children() {
            let ck = c.kind();
            if matches!(ck, K::Space | K::LeftParen | K::RightParen | K::Comma) || is_comment(ck) {
                continue;
            }
            self.node(c, M::Code, Pos::Other, out);
        }
        out.push(")".into());
    }

    fn import_items(&mut self, n: &SyntaxNode, out: &mut Vec<String>) {
        out.push("(ImportItems".into());
        let mut items: Vec<Vec<String>> = Vec::new();
        for c in n.children() {
            let ck = c.kind();
            if matches!(ck, K::Space | K::Comma | K::LeftParen | K::RightParen) || is_comment(ck) {
                continue;
            }
            let mut v = Vec::new();
            self.node(c, M::Code, Pos::Other, &mut v);
            items.push(v);
        }
        if self.opts.sort_imports {
            items.sort();
        }
        for v in items {
            out.extend(v);
        }
        out.push(")".into());
    }

    fn raw(&mut self, n: &SyntaxNode, out: &mut Vec<String>) {
        out.push(raw_repr(n));
    }

    fn markup(&mut self, n: &SyntaxNode, pos: Pos, out: &mut Vec<String>) {
        let mut toks: Vec<String> = Vec::new();
        let mut buf = String::new();
        let mut hash = false;
        fn flush(buf: &mut String, toks: &mut Vec<String>) {
            if !buf.is_empty() {
                toks.push(format!("T:{}", collapse_ws(buf)));
                buf.clear();
            }
        }
        for c in n.children() {
            let ck = c.kind();
            if is_comment(ck) {
                continue;
            }
            match ck {
                K::Text => buf.push_str(c.text()),
                K::Space => buf.push(' '),
                K::Parbreak => {
                    flush(&mut buf, &mut toks);
                    toks.push("PAR".into());
                }
                _ => {
                    flush(&mut buf, &mut toks);
                    let m = if hash { M::Code } else { M::Markup };
                    hash = ck == K::Hash;
                    self.node(c, m, Pos::Other, &mut toks);
                }
            }
        }
        flush(&mut buf, &mut toks);
        // a blank T directly before/after a PAR is absorbed by it
        let mut i = 0;
        while i < toks.len() {
            if toks[i] == "PAR" {
                if i + 1 < toks.len() && toks[i + 1].starts_with("T: ") {
                    let t = toks[i + 1][3..].to_string();
                    if t.is_empty() {
                        toks.remove(i + 1);
                    } else {
                        toks[i + 1] = format!("T:{}", t);
                    }
                }
                if i > 0 && toks[i - 1].starts_with("T:") && toks[i - 1].ends_with(' ') {
                    let t = toks[i - 1][2..toks[i - 1].len() - 1].to_string();
                    if t.is_empty() {
                        toks.remove(i - 1);
                        i -= 1;
                    } else {
                        toks[i - 1] = format!("T:{}", t);
                    }
                }
            }
            i += 1;
        }
        // consecutive paragraph breaks are one paragraph break
        toks.dedup_by(|a, b| a == "PAR" && b == "PAR");
        let trim = matches!(pos, Pos::Root | Pos::TrimmedBody);
        if trim {
            if let Some(first) = toks.first_mut() {
                if first.starts_with("T:") {
                    let t = first[2..].trim_start().to_string();
                    if t.is_empty() {
                        toks.remove(0);
                    } else {
                        *first = format!("T:{}", t);
                    }
                }
            }
            if let Some(last) = toks.last_mut() {
                if last.starts_with("T:") {
                    let t = last[2..].trim_end().to_string();
                    if t.is_empty() {
                        toks.pop();
                    } else {
                        *last = format!("T:{}", t);
                    }
                }
            }
            if pos == Pos::Root {
                // blank lines at the very end of a document are not content
                while toks.last().map(|t| t == "PAR").unwrap_or(false) {
                    toks.pop();
                }
            }
        } else {
            // a blank at the very edge that touches a block-level item is layout
            if toks.len() >= 2 && toks[0] == "T: " && is_block_item(&toks[1]) {
                toks.remove(0);
            }
            if toks.len() >= 2 && toks[toks.len() - 1] == "T: " && ends_with_block_item(&toks[..toks.len() - 1]) {
                toks.pop();
            }
        }
        out.push("(Markup".into());
        out.extend(toks);
        out.push(")".into());
    }
}

/// Does the token slice end with a complete block item group `(ListItem ... )`?
fn ends_with_block_item(toks: &[String]) -> bool {
    if toks.last().map(|t| t != ")").unwrap_or(true) {
        return false;
    }
    let mut depth = 0i32;
    for (i, t) in toks.iter().enumerate().rev() {
        if t == ")" {
            depth += 1;
        } else if t.starts_with('(') && !t.starts_with("(:") && is_open(t) {
            depth -= 1;
            if depth == 0 {
                return is_block_item(&toks[i]);
            }
        }
    }
    false
}

fn is_open(t: &str) -> bool {
    // open tokens are "(Kind" or "(Equation block=…"; leaves look like "Kind:text"
    t.starts_with('(') && t[1..].chars().next().map(|c| c.is_ascii_uppercase()).unwrap_or(false) && !t.contains(':')
}

fn mode_for_child(mode: M) -> M {
    mode
}

fn single_expr_block(n: &SyntaxNode) -> Option<&SyntaxNode> {
    let code = n.children().find(|c| c.kind() == K::Code)?;
    let mut it = code
        .children()
        .filter(|c| !matches!(c.kind(), K::Space | K::Semicolon) && !is_comment(c.kind()));
    let first = it.next()?;
    if it.next().is_some() {
        return None;
    }
    Some(first)
}

pub fn raw_repr(n: &SyntaxNode) -> String {
    let raw = n.cast::<ast::Raw>();
    match raw {
        Some(r) => {
            let fence = n
                .children()
                .find(|c| c.kind() == K::RawDelim)
                .map(|d| d.text().len())
                .unwrap_or(0);
            let lang = r.lang().map(|l| l.get().to_string());
            let lines: Vec<String> = r.lines().map(|t| t.get().to_string()).collect();
            format!("Raw:block={} lang={:?} fence={} lines={:?}", r.block(), lang, fence, lines)
        }
        None => format!("Raw:?{}", n.clone().into_text()),
    }
}

/// First index where the two vectors differ, with a small window for messages.
pub fn first_diff(a: &[String], b: &[String]) -> Option<(usize, String, String)> {
    let n = a.len().min(b.len());
    let mut i = 0;
    while i < n && a[i] == b[i] {
        i += 1;
    }
    if i == a.len() && i == b.len() {
        return None;
    }
    let lo = i.saturating_sub(3);
    let wa = a[lo..(i + 4).min(a.len())].join(" ");
    let wb = b[lo..(i + 4).min(b.len())].join(" ");
    Some((i, wa, wb))
}
