//! Deterministic mutators `base × index -> source` (DESIGN.md §3.2).

use typst_syntax::{SyntaxKind as K, SyntaxNode};

use crate::tree;
use crate::util::Rng;

/// Byte offsets of all token gaps (leaf boundaries), including 0 and len.
pub fn gaps(root: &SyntaxNode) -> Vec<usize> {
    let mut v: Vec<usize> = tree::leaves(root).iter().map(|l| l.start).collect();
    v.push(root.len());
    v.sort_unstable();
    v.dedup();
    v
}

pub fn count_comments(root: &SyntaxNode) -> usize {
    tree::count_kind(root, tree::is_comment)
}

pub const COMMENT_SHAPES: usize = 8;

/// Comment text for shape `s` with unique id `id`.
pub fn comment_text(shape: usize, id: usize) -> String {
    match shape % 4 {
        0 => format!("/* c{} */", id),
        1 => format!("// c{}\n", id),
        2 => format!("/* c{}\n  x{} */", id, id),
        _ => format!("/* c{}\n * y{}\n */", id, id),
    }
}

/// Insert a comment of `shape` at byte offset `at`. Shapes 4..8 are padded with blanks.
pub fn insert_comment(base: &str, at: usize, shape: usize, id: usize) -> String {
    let c = comment_text(shape, id);
    let mut s = String::with_capacity(base.len() + c.len() + 2);
    s.push_str(&base[..at]);
    if shape >= 4 {
        s.push(' ');
    }
    s.push_str(&c);
    if shape >= 4 && shape % 4 != 1 {
        s.push(' ');
    }
    s.push_str(&base[at..]);
    s
}

/// Admission for comment mutants: parses, and exactly one more comment node than the base.
pub fn admit_comment(base_root: &SyntaxNode, mutant: &str) -> bool {
    let Some(r) = tree::parse_ok(mutant) else { return false };
    count_comments(&r) == count_comments(base_root) + 1
}

// ------------------------------------------------------------------------------------------------

/// Whitespace mutations at gap `g`: variant 0..6
pub const WS_VARIANTS: usize = 6;
pub fn mutate_ws(base: &str, root: &SyntaxNode, gap_idx: usize, variant: usize) -> Option<String> {
    let g = gaps(root);
    let at = *g.get(gap_idx)?;
    // if a Space leaf starts here, variants replace it; otherwise they insert
    let leaves = tree::leaves(root);
    let space = leaves.iter().find(|l| l.start == at && l.kind() == K::Space);
    let ins = match variant % WS_VARIANTS {
        0 => " ",
        1 => "\n",
        2 => "\n\n",
        3 => "   ",
        4 => "\n      ",
        _ => "",
    };
    let mut s = String::with_capacity(base.len() + 8);
    s.push_str(&base[..at]);
    s.push_str(ins);
    match space {
        Some(sp) => s.push_str(&base[sp.end()..]),
        None => {
            if ins.is_empty() {
                return None;
            }
            s.push_str(&base[at..])
        }
    }
    if s == base {
        return None;
    }
    Some(s)
}

// ------------------------------------------------------------------------------------------------

pub const EOL_GLOBAL_VARIANTS: usize = 3;
/// Rewrite all line feeds: 0 = CRLF, 1 = CR, 2 = mixed by rng
pub fn mutate_eol_global(base: &str, variant: usize, rng: &mut Rng) -> String {
    let mut s = String::with_capacity(base.len() + 16);
    for c in base.chars() {
        if c == '\n' {
            match variant % EOL_GLOBAL_VARIANTS {
                0 => s.push_str("\r\n"),
                1 => s.push('\r'),
                _ => match rng.below(3) {
                    0 => s.push_str("\r\n"),
                    1 => s.push('\r'),
                    _ => s.push('\n'),
                },
            }
        } else {
            s.push(c);
        }
    }
    s
}

pub const EXOTIC_NEWLINES: [char; 5] = ['\u{2028}', '\u{2029}', '\u{0085}', '\x0B', '\x0C'];
/// Replace the `i`-th line feed by an exotic newline character.
pub fn mutate_eol_single(base: &str, i: usize, which: usize) -> Option<String> {
    let pos = base.match_indices('\n').nth(i)?.0;
    let mut s = String::with_capacity(base.len() + 4);
    s.push_str(&base[..pos]);
    s.push(EXOTIC_NEWLINES[which % EXOTIC_NEWLINES.len()]);
    s.push_str(&base[pos + 1..]);
    Some(s)
}

pub const EOL_BLANKS: [&str; 6] = [" ", "\t", "  ", "\u{00A0}", "\u{3000}", " \t "];
/// Append blanks before the `i`-th line end (or the end of text if i == number of LFs).
pub fn mutate_eolblank(base: &str, i: usize, which: usize) -> Option<String> {
    let n = base.matches('\n').count();
    let pos = if i < n {
        base.match_indices('\n').nth(i)?.0
    } else if i == n {
        base.len()
    } else {
        return None;
    };
    let mut s = String::with_capacity(base.len() + 8);
    s.push_str(&base[..pos]);
    s.push_str(EOL_BLANKS[which % EOL_BLANKS.len()]);
    s.push_str(&base[pos..]);
    Some(s)
}

// ------------------------------------------------------------------------------------------------

#[derive(Clone, Copy, PartialEq, Eq, Debug)]
pub enum Mode {
    Markup,
    Code,
    Math,
}

/// An expression-like node with its byte range and the lexical mode it sits in.
#[derive(Clone, Debug)]
pub struct NodeRef {
    pub kind: K,
    pub start: usize,
    pub end: usize,
    pub mode: Mode,
    pub parent: K,
    /// directly preceded by `#`
    pub hashed: bool,
}

pub fn is_code_expr_kind(k: K) -> bool {
    matches!(
        k,
        K::Ident
            | K::None
            | K::Auto
            | K::Bool
            | K::Int
            | K::Float
            | K::Numeric
            | K::Str
            | K::CodeBlock
            | K::ContentBlock
            | K::Parenthesized
            | K::Array
            | K::Dict
            | K::Unary
            | K::Binary
            | K::FieldAccess
            | K::FuncCall
            | K::Closure
            | K::LetBinding
            | K::DestructAssignment
            | K::SetRule
            | K::ShowRule
            | K::Contextual
            | K::Conditional
            | K::WhileLoop
            | K::ForLoop
            | K::ModuleImport
            | K::ModuleInclude
            | K::LoopBreak
            | K::LoopContinue
            | K::FuncReturn
            | K::Raw
            | K::Equation
            | K::Label
    )
}

/// Collect all nodes with mode information.
pub fn nodes_with_mode(root: &SyntaxNode) -> Vec<NodeRef> {
    let mut out = vec![];
    fn rec(n: &SyntaxNode, off: &mut usize, mode: Mode, parent: K, hashed: bool, out: &mut Vec<NodeRef>) {
        let start = *off;
        let k = n.kind();
        let my_mode = match k {
            K::Markup => Mode::Markup,
            K::Math => Mode::Math,
            K::Equation => Mode::Math,
            K::CodeBlock | K::Code => Mode::Code,
            _ => mode,
        };
        if n.children().len() == 0 {
            *off += n.len();
        } else {
            let mut hash = false;
            for c in n.children() {
                let child_mode = if hash {
                    Mode::Code
                } else {
                    match k {
                        K::ContentBlock | K::Strong | K::Emph | K::Heading | K::ListItem | K::EnumItem | K::TermItem => {
                            Mode::Markup
                        }
                        _ => my_mode,
                    }
                };
                let h = hash;
                hash = c.kind() == K::Hash;
                rec(c, off, child_mode, k, h, out);
            }
        }
        out.push(NodeRef { kind: k, start, end: *off, mode, parent, hashed });
    }
    let mut off = 0;
    rec(root, &mut off, Mode::Markup, K::End, false, &mut out);
    out
}

/// Code-mode expression nodes that can be wrapped in parentheses.
pub fn paren_sites(root: &SyntaxNode) -> Vec<NodeRef> {
    nodes_with_mode(root)
        .into_iter()
        .filter(|n| {
            n.mode == Mode::Code
                && is_code_expr_kind(n.kind)
                && !matches!(
                    n.kind,
                    K::LetBinding
                        | K::SetRule
                        | K::ShowRule
                        | K::ModuleImport
                        | K::ModuleInclude
                        | K::LoopBreak
                        | K::LoopContinue
                        | K::FuncReturn
                        | K::DestructAssignment
                )
                && !matches!(
                    n.parent,
                    K::Params | K::Destructuring | K::LetBinding | K::ImportItems | K::ModuleImport | K::ImportItemPath | K::RenamedImportItem
                )
        })
        .collect()
}

/// Pattern nodes that can take (more) redundant parentheses: closure parameters, `let` / `for` patterns, items of a
/// destructuring. `((a, b)) => ..` destructures its single parameter; `(((a, b))) => ..` still does.
pub fn pattern_paren_sites(root: &SyntaxNode) -> Vec<NodeRef> {
    let mut out = vec![];
    fn rec(n: &SyntaxNode, off: usize, out: &mut Vec<NodeRef>) {
        let k = n.kind();
        let mut o = off;
        let mut seen_binding_kw = false;
        for c in n.children() {
            let ck = c.kind();
            let is_pat = matches!(ck, K::Ident | K::Destructuring | K::Parenthesized | K::Underscore);
            let site = match k {
                K::Params | K::Destructuring => is_pat,
                // the pattern of `let p = ..` / `for p in ..` is the first pattern-like child after the keyword
                K::LetBinding | K::ForLoop => {
                    let first = is_pat && seen_binding_kw;
                    if matches!(ck, K::Let | K::For) {
                        seen_binding_kw = true;
                    } else if !matches!(ck, K::Space | K::LineComment | K::BlockComment) {
                        seen_binding_kw = false;
                    }
                    first
                }
                // `x => ..`: the lone parameter
                K::Closure => false,
                _ => false,
            };
            if site && c.len() > 0 {
                out.push(NodeRef { kind: ck, start: o, end: o + c.len(), mode: Mode::Code, parent: k, hashed: false });
            }
            rec(c, o, out);
            o += c.len();
        }
    }
    rec(root, 0, &mut out);
    out
}

pub const PAREN_VARIANTS: usize = 4;
pub fn mutate_paren(base: &str, site: &NodeRef, variant: usize) -> String {
    let inner = &base[site.start..site.end];
    let wrapped = match variant % PAREN_VARIANTS {
        0 => format!("({})", inner),
        1 => format!("(({}))", inner),
        2 => format!("(\n  {}\n)", inner),
        _ => format!("( {} )", inner),
    };
    format!("{}{}{}", &base[..site.start], wrapped, &base[site.end..])
}

// ------------------------------------------------------------------------------------------------
// M-SPLICE

#[derive(Clone, Debug)]
pub struct Fragment {
    pub text: String,
    pub mode: Mode,
    pub kind: K,
}

/// Harvest code-expression and math fragments from a set of sources.
pub fn harvest(sources: &[&str]) -> Vec<Fragment> {
    let mut out = vec![];
    let mut seen = std::collections::HashSet::new();
    for src in sources {
        let Some(root) = tree::parse_ok(src) else { continue };
        for n in nodes_with_mode(&root) {
            let len = n.end - n.start;
            if len == 0 || len > 400 {
                continue;
            }
            let ok = match n.mode {
                Mode::Code => is_code_expr_kind(n.kind) && !n.hashed || (n.hashed && is_code_expr_kind(n.kind)),
                Mode::Math => matches!(
                    n.kind,
                    K::MathDelimited | K::MathAttach | K::MathFrac | K::MathRoot | K::FuncCall | K::MathIdent | K::MathText | K::Str | K::FieldAccess | K::MathPrimes
                ),
                Mode::Markup => false,
            };
            if !ok {
                continue;
            }
            let text = &src[n.start..n.end];
            if seen.insert((text.to_string(), n.mode as u8)) {
                out.push(Fragment { text: text.to_string(), mode: n.mode, kind: n.kind });
            }
        }
    }
    out
}

pub fn splice_sites(root: &SyntaxNode) -> Vec<NodeRef> {
    nodes_with_mode(root)
        .into_iter()
        .filter(|n| {
            n.end > n.start
                && match n.mode {
                    Mode::Code => {
                        is_code_expr_kind(n.kind)
                            && !matches!(n.parent, K::Params | K::Destructuring | K::ImportItems | K::ModuleImport | K::Named if n.kind == K::Ident)
                    }
                    Mode::Math => matches!(
                        n.kind,
                        K::MathDelimited | K::MathAttach | K::MathFrac | K::MathRoot | K::FuncCall | K::MathIdent | K::MathText | K::FieldAccess
                    ),
                    Mode::Markup => false,
                }
        })
        .collect()
}

pub fn is_statement_kind(k: K) -> bool {
    matches!(
        k,
        K::LetBinding
            | K::SetRule
            | K::ShowRule
            | K::ModuleImport
            | K::ModuleInclude
            | K::LoopBreak
            | K::LoopContinue
            | K::FuncReturn
            | K::DestructAssignment
    )
}

pub fn mutate_splice(base: &str, site: &NodeRef, frag: &Fragment) -> String {
    format!("{}{}{}", &base[..site.start], frag.text, &base[site.end..])
}

// ------------------------------------------------------------------------------------------------
// M-UNI

pub const UNI_SAMPLES: [&str; 10] = [
    "中文",
    "e\u{301}",
    "עברית",
    "👨\u{200d}👩",
    "\u{00A0}",
    "ａ",
    "\u{200B}",
    "é",
    "\u{202E}x",
    "\u{FEFF}",
];

/// Insert a unicode sample inside the `i`-th Text / Str / comment / MathText leaf.
pub fn mutate_uni(base: &str, root: &SyntaxNode, i: usize, which: usize) -> Option<String> {
    let leaves = tree::leaves(root);
    let targets: Vec<_> = leaves
        .iter()
        .filter(|l| matches!(l.kind(), K::Text | K::Str | K::LineComment | K::BlockComment) && l.node.len() >= 2)
        .collect();
    let l = targets.get(i)?;
    // insert after the first char (inside quotes / after comment opener)
    let txt = l.node.text();
    let mut off = if matches!(l.kind(), K::LineComment | K::BlockComment) { 2 } else { 1 };
    while !txt.is_char_boundary(off) {
        off += 1;
    }
    let at = l.start + off;
    Some(format!("{}{}{}", &base[..at], UNI_SAMPLES[which % UNI_SAMPLES.len()], &base[at..]))
}

/// M-BLANK: blanks that are *text* for Typst's markup lexer (only space, tab and the newline characters are `Space` there):
/// no-break space, thin space, narrow no-break space, ideographic space, em space, medium mathematical space, ogham space mark.
pub const EXOTIC_BLANKS: [&str; 7] = ["\u{00A0}", "\u{2009}", "\u{202F}", "\u{3000}", "\u{2003}", "\u{205F}", "\u{1680}"];
pub const BLANK_VARIANTS: usize = 14;

/// Text leaves of markup with at least one inner ASCII space or a neighbour on the same line.
pub fn blank_targets(root: &SyntaxNode) -> Vec<(usize, usize)> {
    tree::leaves(root).iter().filter(|l| l.kind() == K::Text && l.node.len() >= 3).map(|l| (l.start, l.end())).collect()
}

/// variant < 7: the first ASCII space inside the text token is replaced by the blank (`10 km de long` -> `10<NBSP>km de long`);
/// variant >= 7: the blank is inserted after the first character (`hello world` -> `h<NBSP>ello world`).
pub fn mutate_blank(base: &str, target: (usize, usize), variant: usize) -> Option<String> {
    let b = EXOTIC_BLANKS[variant % EXOTIC_BLANKS.len()];
    let txt = &base[target.0..target.1];
    if variant < EXOTIC_BLANKS.len() {
        let i = txt.find(' ')?;
        Some(format!("{}{}{}", &base[..target.0 + i], b, &base[target.0 + i + 1..]))
    } else {
        let mut off = 1;
        while !txt.is_char_boundary(off) {
            off += 1;
        }
        Some(format!("{}{}{}", &base[..target.0 + off], b, &base[target.0 + off..]))
    }
}

pub fn uni_target_count(root: &SyntaxNode) -> usize {
    tree::leaves(root)
        .iter()
        .filter(|l| matches!(l.kind(), K::Text | K::Str | K::LineComment | K::BlockComment) && l.node.len() >= 2)
        .count()
}

// ------------------------------------------------------------------------------------------------
// M-HAVOC (for totality): byte/char level damage

const HAVOC_TOKENS: [&str; 40] = [
    "(", ")", "[", "]", "{", "}", "$", "#", "\"", "`", "```", "*", "_", "/*", "*/", "//", "\n", "\r", "\r\n", "\u{2028}",
    "\u{2029}", "\u{0085}", "\x0B", "\x0C", "\t", " ", "\u{00A0}", "\u{3000}", "\u{FEFF}", "\0", ",", ";", ":", "..", "=>",
    "\\", "@", "<", ">", "=",
];

pub fn havoc(base: &str, rng: &mut Rng) -> String {
    let mut chars: Vec<char> = base.chars().collect();
    let ops = 1 + rng.below(4);
    for _ in 0..ops {
        let n = chars.len();
        match rng.below(6) {
            0 if n > 0 => {
                // delete a run
                let a = rng.below(n);
                let len = 1 + rng.below(8.min(n - a));
                chars.drain(a..a + len);
            }
            1 => {
                let a = rng.below(n + 1);
                let tok: Vec<char> = rng.pick(&HAVOC_TOKENS).chars().collect();
                chars.splice(a..a, tok);
            }
            2 if n > 0 => {
                // duplicate a chunk
                let a = rng.below(n);
                let len = 1 + rng.below(40.min(n - a));
                let chunk: Vec<char> = chars[a..a + len].to_vec();
                let b = rng.below(n + 1);
                chars.splice(b..b, chunk);
            }
            3 if n > 0 => {
                let a = rng.below(n);
                let tok: Vec<char> = rng.pick(&HAVOC_TOKENS).chars().collect();
                chars.splice(a..a + 1, tok);
            }
            4 if n > 1 => {
                // swap two chars
                let a = rng.below(n);
                let b = rng.below(n);
                chars.swap(a, b);
            }
            _ if n > 0 => {
                // truncate
                let a = rng.below(n);
                chars.truncate(a);
            }
            _ => {}
        }
    }
    chars.into_iter().collect()
}

/// All prefix truncations on char boundaries.
pub fn prefixes(base: &str) -> Vec<String> {
    base.char_indices().map(|(i, _)| base[..i].to_string()).collect()
}
