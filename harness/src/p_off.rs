//! C07 — the `@typstyle off` escape hatch reproduces the next node verbatim.

use std::sync::Arc;

use serde_json::json;
use typst_syntax::{ast, SyntaxKind as K, SyntaxNode};

use crate::engine::{Acc, Case, Violation};
use crate::fmtx::{self, Cfg, FmtOut};
use crate::mutate::{self, Mode};
use crate::pools::{Base, MutPool};
use crate::tree;
use crate::util;

#[derive(Debug, Clone)]
pub struct Directive {
    pub comment: String,
    /// source text of the protected node (None: nothing follows)
    pub target: Option<String>,
    pub target_kind: Option<K>,
    /// target is an expression, a code body or an equation body (the statement's scope)
    pub in_scope: bool,
}

fn is_expr(n: &SyntaxNode) -> bool {
    n.cast::<ast::Expr>().is_some()
}

/// All directive comments in document order with the node they protect.
pub fn directives(root: &SyntaxNode) -> Vec<Directive> {
    let mut out = vec![];
    fn rec(n: &SyntaxNode, out: &mut Vec<Directive>) {
        let kids: Vec<&SyntaxNode> = n.children().collect();
        let mut i = 0;
        while i < kids.len() {
            let c = kids[i];
            if tree::is_comment(c.kind()) && c.text().contains("@typstyle off") {
                // next sibling skipping Space, Hash (and further comments do not count as targets)
                let mut j = i + 1;
                while j < kids.len() && matches!(kids[j].kind(), K::Space | K::Parbreak | K::Hash) {
                    j += 1;
                }
                let target = kids.get(j).copied().filter(|t| !tree::is_comment(t.kind()));
                // Scope (DESIGN.md §8, weaker reading): code expressions, code bodies, math bodies and equations.
                // Markup-only elements (text, strong/emph, headings, list/enum/term items, links, labels, …) are not
                // "expressions" in the statement's sense.
                let in_scope = target
                    .map(|t| {
                        matches!(t.kind(), K::Code | K::Math)
                            || (is_expr(t)
                                && !matches!(
                                    t.kind(),
                                    K::Space
                                        | K::Parbreak
                                        | K::Text
                                        | K::Linebreak
                                        | K::Strong
                                        | K::Emph
                                        | K::Raw
                                        | K::Link
                                        | K::Label
                                        | K::Ref
                                        | K::Heading
                                        | K::ListItem
                                        | K::EnumItem
                                        | K::TermItem
                                        | K::Escape
                                        | K::Shorthand
                                        | K::SmartQuote
                                ))
                    })
                    .unwrap_or(false);
                out.push(Directive {
                    comment: c.text().to_string(),
                    target: target.map(|t| t.clone().into_text().to_string()),
                    target_kind: target.map(|t| t.kind()),
                    in_scope,
                });
                // the protected node is reproduced verbatim: directives inside it are inert text
                if in_scope {
                    i = j + 1;
                    continue;
                }
            }
            rec(c, out);
            i += 1;
        }
    }
    rec(root, &mut out);
    out
}

fn rtrim_lines(s: &str) -> String {
    s.split('\n').map(|l| l.trim_end()).collect::<Vec<_>>().join("\n")
}

pub fn check(x: &str, px: &SyntaxNode, cfg: Cfg, acc: &mut Acc) -> Result<Option<(bool, Option<String>)>, &'static str> {
    let dx = directives(px);
    if !dx.iter().any(|d| d.in_scope) {
        return Ok(None);
    }
    let y = match fmtx::fmt(x, cfg) {
        FmtOut::Ok(y) => y,
        FmtOut::Refused => return Err("refused"),
        FmtOut::Panic(_) => return Err("panic(see C05)"),
    };
    acc.evaluations += 1;
    let py = typst_syntax::parse(&y);
    if py.erroneous() {
        return Err("output-unparseable(see C04)");
    }
    let dy = directives(&py);
    acc.count("directives_tracked", dx.iter().filter(|d| d.in_scope).count() as u64);
    if dx.len() != dy.len() {
        return Ok(Some((
            true,
            Some(format!("number of directive comments changed: {} -> {} (directive lost, duplicated or absorbed)", dx.len(), dy.len())),
        )));
    }
    for (k, (a, b)) in dx.iter().zip(dy.iter()).enumerate() {
        if !a.in_scope {
            continue;
        }
        let ta = rtrim_lines(a.target.as_deref().unwrap_or(""));
        let tb = rtrim_lines(b.target.as_deref().unwrap_or(""));
        // The printer may wrap the (verbatim) node in optional parentheses / braces when the surrounding
        // expression is laid out on several lines; the node's text is still reproduced character for character.
        let unwrapped = {
            let t = tb.trim();
            if (t.starts_with('(') && t.ends_with(')')) || (t.starts_with('{') && t.ends_with('}')) {
                Some(t[1..t.len() - 1].trim().to_string())
            } else {
                None
            }
        };
        // A directive followed by a blank line is a detached comment for the list printers and may be re-attached
        // before the separator (`(1, /* off */⏎⏎2)` -> `(1 /* off */, 2)`): the directive then *precedes* something else in
        // the output, but the statement only asks that the protected node's text appears character for character —
        // which is looked for after the directive's position in the output.
        let appears_after = || {
            let mut pos = 0usize;
            for d in dy.iter().take(k + 1) {
                match y[pos..].find(d.comment.as_str()) {
                    Some(p) => pos += p + d.comment.len(),
                    None => return false,
                }
            }
            !ta.trim().is_empty() && rtrim_lines(&y[pos..]).contains(ta.trim())
        };
        if ta != tb && unwrapped.as_deref() != Some(ta.trim()) && !appears_after() {
            return Ok(Some((
                true,
                Some(format!(
                    "directive #{} ({:?}) protects a {:?} node whose text changed: {:?} -> {:?}",
                    k,
                    util::clip(&a.comment, 30),
                    a.target_kind.unwrap_or(K::End),
                    util::clip(&ta, 120),
                    util::clip(&tb, 120)
                )),
            )));
        }
    }
    // Control run: the same source with the directive disabled (`@typstyle 0ff`, same length, same tree shape):
    // the case is non-trivial iff the control formats differently, i.e. the directive actually protected something.
    // (A comparison of the text *outside* the protected node with the control run was tried and removed: comments
    // adjacent to the node and protected bodies make the two layouts differ legitimately; DESIGN.md §11.5.)
    let twin = x.replacen("@typstyle off", "@typstyle 0ff", 1);
    let nontrivial = match fmtx::fmt(&twin, cfg) {
        FmtOut::Ok(yt) => yt.replace("@typstyle 0ff", "@typstyle off") != y,
        _ => false,
    };
    Ok(Some((false, if nontrivial { Some(y) } else { None })))
}

pub fn run_case(case: &Case, cfgs: &[Cfg], acc: &mut Acc) {
    let Some(px) = tree::parse_ok(&case.text) else {
        acc.inconclusive("input-erroneous");
        return;
    };
    let xh = util::hash64(&case.text);
    acc.distinct_inputs.insert(xh);
    for &cfg in cfgs {
        match check(&case.text, &px, cfg, acc) {
            Ok(None) => {
                acc.inconclusive("no-directive-in-scope");
                return;
            }
            Ok(Some((false, y))) => {
                acc.held += 1;
                if let Some(y) = y {
                    acc.nontrivial.insert(xh);
                    if case.text.len() < 160 {
                        acc.sample(json!({"input": case.text, "cfg": cfg.json(), "output": y, "origin": case.origin}));
                    }
                }
            }
            Ok(Some((true, detail))) => {
                acc.nontrivial.insert(xh);
                acc.violations.push(Violation {
                    property: "C07".into(),
                    input: case.text.clone(),
                    cfg: Some(cfg),
                    origin: case.origin.clone(),
                    oracle: "directive-target-verbatim".into(),
                    detail: detail.unwrap_or_default(),
                    extra: serde_json::Value::Null,
                });
            }
            Err(r) => acc.inconclusive(r),
        }
    }
}

pub fn violated(input: &str, cfg: Cfg) -> Option<bool> {
    let px = tree::parse_ok(input)?;
    let mut acc = Acc::new();
    match check(input, &px, cfg, &mut acc) {
        Ok(Some((v, _))) => Some(v),
        _ => None,
    }
}

// ------------------------------------------------------------------------------------------------
// M-OFF: directive injection

/// Uglify the payload `text` (a node's source): widen blanks, pad commas/colons.
fn uglify(text: &str, variant: usize) -> String {
    match variant % 3 {
        0 => text.to_string(),
        1 => {
            // widen every single blank outside of strings/raw (cheap approximation: outside quotes/backticks)
            let mut out = String::new();
            let mut quote: Option<char> = None;
            for c in text.chars() {
                match quote {
                    Some(q) => {
                        out.push(c);
                        if c == q {
                            quote = None;
                        }
                    }
                    None => {
                        if c == '"' || c == '`' {
                            quote = Some(c);
                            out.push(c);
                        } else if c == ' ' {
                            out.push_str("   ");
                        } else if c == ',' {
                            out.push_str(" ,  ");
                        } else {
                            out.push(c);
                        }
                    }
                }
            }
            out
        }
        _ => {
            let mut out = String::new();
            let mut quote: Option<char> = None;
            for c in text.chars() {
                match quote {
                    Some(q) => {
                        out.push(c);
                        if c == q {
                            quote = None;
                        }
                    }
                    None => {
                        if c == '"' || c == '`' {
                            quote = Some(c);
                            out.push(c);
                        } else if c == ',' {
                            out.push_str(",\n        ");
                        } else if c == ' ' {
                            out.push_str("  ");
                        } else {
                            out.push(c);
                        }
                    }
                }
            }
            out
        }
    }
}

pub const OFF_VARIANTS: usize = 18; // 6 directive spellings × 3 payload shapes

/// Directive comments as users write them: bare, with a reason, with punctuation touching the directive.
const DIRECTIVES: [&str; 6] = [
    "/* @typstyle off */ ",
    "// @typstyle off\n",
    "/* @typstyle off: hand-aligned */ ",
    "// (@typstyle off)\n",
    "/* keep as is; @typstyle off. */ ",
    "// @typstyle off, see #42\n",
];

pub fn off_sites(root: &SyntaxNode) -> Vec<mutate::NodeRef> {
    mutate::nodes_with_mode(root)
        .into_iter()
        .filter(|n| {
            n.end > n.start
                && match n.mode {
                    Mode::Code => mutate::is_code_expr_kind(n.kind) || n.kind == K::Code,
                    Mode::Math => {
                        n.kind == K::Math
                            || matches!(
                                n.kind,
                                K::MathDelimited | K::MathAttach | K::MathFrac | K::MathRoot | K::FuncCall | K::MathIdent | K::MathText
                            )
                    }
                    Mode::Markup => matches!(n.kind, K::Equation | K::Strong | K::Emph | K::Raw | K::Heading | K::ListItem | K::EnumItem | K::TermItem | K::Ref | K::Link | K::Label),
                }
        })
        .collect()
}

pub fn off_pool(bases: Arc<Vec<Base>>) -> MutPool {
    let sites: Arc<Vec<Vec<mutate::NodeRef>>> = Arc::new(bases.iter().map(|b| off_sites(&b.root)).collect());
    let index: std::collections::HashMap<String, usize> = bases.iter().enumerate().map(|(i, b)| (b.case.origin.clone(), i)).collect();
    let mut prefix = vec![0usize];
    for s in sites.iter() {
        prefix.push(prefix.last().unwrap() + s.len() * OFF_VARIANTS);
    }
    MutPool {
        name: "M-OFF".into(),
        bases,
        prefix,
        f: Box::new(move |b, j| {
            let bi = *index.get(&b.case.origin)?;
            let site = sites[bi].get(j / OFF_VARIANTS)?;
            let v = j % OFF_VARIANTS;
            let text = &b.case.text;
            let at = if site.hashed { site.start - 1 } else { site.start };
            let payload = uglify(&text[site.start..site.end], v / DIRECTIVES.len());
            let directive = DIRECTIVES[v % DIRECTIVES.len()].to_string();
            let m = format!("{}{}{}{}{}", &text[..at], directive, &text[at..site.start], payload, &text[site.end..]);
            let root = tree::parse_ok(&m)?;
            if mutate::count_comments(&root) != mutate::count_comments(&b.root) + 1 {
                return None;
            }
            // the injected directive must protect something in scope
            if !directives(&root).iter().any(|d| d.in_scope) {
                return None;
            }
            Some(m)
        }),
    }
}

// ------------------------------------------------------------------------------------------------
// M-OFF4: the protected node contains a line terminator other than LF (or such a character as *content* of a string):
// "character for character - line breaks included".

pub const OFF4_VARIANTS: usize = 14;
const OFF4_CHARS: [&str; 7] = ["\u{b}", "\u{c}", "\r", "\u{85}", "\u{2028}", "\u{2029}", "\r\n"];

fn exotic_payload(text: &str, v: usize) -> Option<String> {
    let ch = OFF4_CHARS[v % OFF4_CHARS.len()];
    let mut quote: Option<char> = None;
    if v / OFF4_CHARS.len() == 0 {
        // replace the first blank / line feed outside string and raw literals
        for (i, c) in text.char_indices() {
            match quote {
                Some(q) => {
                    if c == q {
                        quote = None;
                    }
                }
                None => {
                    if c == '"' || c == '`' {
                        quote = Some(c);
                    } else if c == ' ' || c == '\n' {
                        return Some(format!("{}{}  {}", &text[..i], ch, &text[i + 1..]));
                    } else if c == ',' || c == '(' {
                        return Some(format!("{}{}  {}", &text[..i + 1], ch, &text[i + 1..]));
                    }
                }
            }
        }
        None
    } else {
        // as content: inside the first string literal
        let i = text.find('"')?;
        let rest = &text[i + 1..];
        let j = rest.find('"')?;
        if rest[..j].contains('\\') {
            return None;
        }
        Some(format!("{}a{}b{}", &text[..i + 1], ch, &text[i + 1..]))
    }
}

pub fn off4_pool(bases: Arc<Vec<Base>>) -> MutPool {
    let sites: Arc<Vec<Vec<mutate::NodeRef>>> = Arc::new(bases.iter().map(|b| off_sites(&b.root)).collect());
    let index: std::collections::HashMap<String, usize> = bases.iter().enumerate().map(|(i, b)| (b.case.origin.clone(), i)).collect();
    let mut prefix = vec![0usize];
    for s in sites.iter() {
        prefix.push(prefix.last().unwrap() + s.len() * OFF4_VARIANTS);
    }
    MutPool {
        name: "M-OFF4".into(),
        bases,
        prefix,
        f: Box::new(move |b, j| {
            let bi = *index.get(&b.case.origin)?;
            let site = sites[bi].get(j / OFF4_VARIANTS)?;
            let v = j % OFF4_VARIANTS;
            let text = &b.case.text;
            let at = if site.hashed { site.start - 1 } else { site.start };
            let payload = exotic_payload(&text[site.start..site.end], v)?;
            let directive = if (j / OFF4_VARIANTS) % 2 == 0 { "/* @typstyle off */ " } else { "// @typstyle off\n" };
            let m = format!("{}{}{}{}{}", &text[..at], directive, &text[at..site.start], payload, &text[site.end..]);
            let root = tree::parse_ok(&m)?;
            if mutate::count_comments(&root) != mutate::count_comments(&b.root) + 1 {
                return None;
            }
            if !directives(&root).iter().any(|d| d.in_scope) {
                return None;
            }
            Some(m)
        }),
    }
}

// ------------------------------------------------------------------------------------------------
// M-OFF3: the directive is separated from its node by more whitespace than one blank or one line break
// ("directly followed, ignoring whitespace": blank lines, trailing blanks, tabs).

pub const OFF3_VARIANTS: usize = 8;
const OFF3: [&str; 8] = [
    "/* @typstyle off */\n\n",
    "// @typstyle off\n\n",
    "/* @typstyle off */\n\n\n",
    "// @typstyle off\n\n\n",
    "/* @typstyle off */  \n  \n  ",
    "// @typstyle off\n  \n  ",
    "/* @typstyle off */\t",
    "// @typstyle off\n\t",
];

pub fn off3_pool(bases: Arc<Vec<Base>>) -> MutPool {
    let sites: Arc<Vec<Vec<mutate::NodeRef>>> = Arc::new(bases.iter().map(|b| off_sites(&b.root)).collect());
    let index: std::collections::HashMap<String, usize> = bases.iter().enumerate().map(|(i, b)| (b.case.origin.clone(), i)).collect();
    let mut prefix = vec![0usize];
    for s in sites.iter() {
        prefix.push(prefix.last().unwrap() + s.len() * OFF3_VARIANTS);
    }
    MutPool {
        name: "M-OFF3".into(),
        bases,
        prefix,
        f: Box::new(move |b, j| {
            let bi = *index.get(&b.case.origin)?;
            let site = sites[bi].get(j / OFF3_VARIANTS)?;
            let v = j % OFF3_VARIANTS;
            let text = &b.case.text;
            let at = if site.hashed { site.start - 1 } else { site.start };
            let payload = uglify(&text[site.start..site.end], 1);
            let m = format!("{}{}{}{}{}", &text[..at], OFF3[v], &text[at..site.start], payload, &text[site.end..]);
            let root = tree::parse_ok(&m)?;
            if mutate::count_comments(&root) != mutate::count_comments(&b.root) + 1 {
                return None;
            }
            if !directives(&root).iter().any(|d| d.in_scope) {
                return None;
            }
            Some(m)
        }),
    }
}

// ------------------------------------------------------------------------------------------------
// M-OFF2: a directive before an item that is NOT reproduced verbatim (named / keyed / spread items, parameters,
// destructuring items: outside C07's scope, the printer formats them as usual) combined with a comment inside
// that item. The attribute pass does not descend below a directive, so these subtrees are formatted with
// incomplete attributes: a mechanism of its own for losing comments (C06) or changing the tree (C01, C04).

pub fn off2_sites(root: &SyntaxNode) -> Vec<mutate::NodeRef> {
    mutate::nodes_with_mode(root)
        .into_iter()
        .filter(|n| n.end > n.start + 3 && n.mode == Mode::Code && matches!(n.kind, K::Named | K::Keyed | K::Spread))
        .collect()
}

pub fn off2_pool(bases: Arc<Vec<Base>>) -> MutPool {
    // per base: list of (site, gap offsets inside the site)
    let plans: Arc<Vec<Vec<(usize, usize, usize)>>> = Arc::new(
        bases
            .iter()
            .map(|b| {
                let mut v = vec![];
                for s in off2_sites(&b.root) {
                    for &g in b.gaps.iter().filter(|&&g| g > s.start && g < s.end) {
                        v.push((s.start, s.end, g));
                    }
                }
                v
            })
            .collect(),
    );
    let index: std::collections::HashMap<String, usize> = bases.iter().enumerate().map(|(i, b)| (b.case.origin.clone(), i)).collect();
    let mut prefix = vec![0usize];
    for p in plans.iter() {
        prefix.push(prefix.last().unwrap() + p.len() * mutate::COMMENT_SHAPES);
    }
    MutPool {
        name: "M-OFF2".into(),
        bases,
        prefix,
        f: Box::new(move |b, j| {
            let bi = *index.get(&b.case.origin)?;
            let (start, _end, gap) = *plans[bi].get(j / mutate::COMMENT_SHAPES)?;
            let shape = j % mutate::COMMENT_SHAPES;
            let text = &b.case.text;
            // comment first (higher offset), then the directive
            let with_comment = mutate::insert_comment(text, gap, shape, j);
            let m = format!("{}/* @typstyle off */ {}", &with_comment[..start], &with_comment[start..]);
            let root = tree::parse_ok(&m)?;
            if mutate::count_comments(&root) != mutate::count_comments(&b.root) + 2 {
                return None;
            }
            Some(m)
        }),
    }
}
