//! Driver for the properties that observe `(text, cfg) -> Ok(out)` and compare the two parse trees.

use std::collections::HashMap;

use serde_json::json;
use typst_syntax::SyntaxNode;

use crate::engine::{Acc, Case, Violation};
use crate::fmtx::{self, Cfg, FmtOut};
use crate::tree;
use crate::util;

/// One observed execution.
pub struct Exec<'a> {
    pub x: &'a str,
    pub px: &'a SyntaxNode,
    pub cfg: Cfg,
    pub y: &'a str,
}

/// Oracle verdict for one execution.
pub enum Verdict {
    Held { nontrivial: bool },
    Violated { oracle: &'static str, detail: String },
    Inconclusive(&'static str),
}

pub type Oracle = dyn Fn(&Exec, &mut Acc) -> Verdict + Sync;

pub struct TreeCheck<'a> {
    pub property: &'a str,
    /// verdict depends only on (x, y, reorder) — evaluate once per distinct output
    pub per_output: bool,
    pub oracle: &'a Oracle,
}

/// Run the oracle on one case under all given configs.
pub fn run_case(chk: &TreeCheck, case: &Case, cfgs: &[Cfg], acc: &mut Acc) {
    let Some(px) = tree::parse_ok(&case.text) else {
        acc.inconclusive("input-erroneous");
        return;
    };
    let xh = util::hash64(&case.text);
    acc.distinct_inputs.insert(xh);
    let mut cache: HashMap<(u64, bool), bool> = HashMap::new(); // (output hash, reorder) -> done
    let mut distinct_outputs = 0u64;
    for &cfg in cfgs {
        let out = fmtx::fmt(&case.text, cfg);
        acc.evaluations += 1;
        let y = match out {
            FmtOut::Ok(y) => y,
            FmtOut::Refused => {
                // a well-formed input was refused: that is C05's business; here nothing can be compared
                acc.inconclusive("refused-wellformed");
                continue;
            }
            FmtOut::Panic(_) => {
                acc.inconclusive("panic(see C05)");
                continue;
            }
        };
        if chk.per_output {
            let key = (util::hash64(&y), cfg.reorder);
            if cache.contains_key(&key) {
                acc.held += 1;
                acc.count("executions_with_already_judged_output", 1);
                continue;
            }
            cache.insert(key, true);
            distinct_outputs += 1;
        }
        let ex = Exec { x: &case.text, px: &px, cfg, y: &y };
        match (chk.oracle)(&ex, acc) {
            Verdict::Held { nontrivial } => {
                acc.held += 1;
                if nontrivial {
                    acc.nontrivial.insert(xh);
                }
                if acc.samples.len() < 3 && nontrivial && case.text.len() < 200 {
                    acc.sample(json!({"input": case.text, "cfg": cfg.json(), "output": y, "origin": case.origin}));
                }
            }
            Verdict::Violated { oracle, detail } => {
                acc.nontrivial.insert(xh);
                acc.violations.push(Violation {
                    property: chk.property.to_string(),
                    input: case.text.clone(),
                    cfg: Some(cfg),
                    origin: case.origin.clone(),
                    oracle: oracle.to_string(),
                    detail,
                    extra: serde_json::Value::Null,
                });
            }
            Verdict::Inconclusive(r) => acc.inconclusive(r),
        }
    }
    if chk.per_output {
        acc.count("distinct_outputs", distinct_outputs);
        acc.max("max_distinct_outputs_per_input", distinct_outputs);
    }
}

// ------------------------------------------------------------------------------------------------
// C03 convergence

pub fn oracle_c03(ex: &Exec, _acc: &mut Acc) -> Verdict {
    match fmtx::fmt(ex.y, ex.cfg) {
        FmtOut::Ok(y2) => {
            if y2 == ex.y {
                Verdict::Held { nontrivial: ex.y != ex.x }
            } else {
                let d = first_line_diff(ex.y, &y2);
                Verdict::Violated { oracle: "fmt(fmt(x))==fmt(x)", detail: d }
            }
        }
        FmtOut::Refused => Verdict::Violated {
            oracle: "fmt(fmt(x))==fmt(x)",
            detail: "second pass refused: first output has syntax errors".into(),
        },
        FmtOut::Panic(p) => Verdict::Violated {
            oracle: "fmt(fmt(x))==fmt(x)",
            detail: format!("second pass panicked: {}", p),
        },
    }
}

pub fn first_line_diff(a: &str, b: &str) -> String {
    let la: Vec<&str> = a.split('\n').collect();
    let lb: Vec<&str> = b.split('\n').collect();
    let n = la.len().max(lb.len());
    for i in 0..n {
        let x = la.get(i).copied().unwrap_or("<EOF>");
        let y = lb.get(i).copied().unwrap_or("<EOF>");
        if x != y {
            return format!("line {}: pass1 {:?} vs pass2 {:?}", i + 1, util::clip(x, 100), util::clip(y, 100));
        }
    }
    "equal".into()
}

// ------------------------------------------------------------------------------------------------
// C04 output parses

pub fn oracle_c04(ex: &Exec, _acc: &mut Acc) -> Verdict {
    let py = typst_syntax::parse(ex.y);
    if py.erroneous() {
        let errs = py.errors();
        let msg = errs
            .first()
            .map(|e| e.message.to_string())
            .unwrap_or_else(|| "?".into());
        let near = first_error_context(&py, ex.y);
        Verdict::Violated {
            oracle: "output-parses",
            detail: format!("output has {} syntax error(s); first: {:?} near {:?}", errs.len(), msg, near),
        }
    } else {
        Verdict::Held { nontrivial: ex.y != ex.x }
    }
}

fn first_error_context(root: &SyntaxNode, text: &str) -> String {
    let mut pos = None;
    tree::walk(root, &mut |n, off, _| {
        if pos.is_none() && n.kind() == typst_syntax::SyntaxKind::Error {
            pos = Some(off);
        }
    });
    match pos {
        Some(p) => {
            let mut lo = p.saturating_sub(30);
            while !text.is_char_boundary(lo) {
                lo -= 1;
            }
            let mut hi = (p + 30).min(text.len());
            while !text.is_char_boundary(hi) {
                hi += 1;
            }
            text[lo..hi].to_string()
        }
        None => String::new(),
    }
}

// ------------------------------------------------------------------------------------------------
// C11 hygiene

pub fn hygiene_violation(y: &str) -> Option<String> {
    if y.is_empty() {
        return Some("output is empty".into());
    }
    if !y.ends_with('\n') {
        return Some("output does not end with a line feed".into());
    }
    for (i, line) in y.split('\n').enumerate() {
        if let Some(c) = line.chars().last() {
            if c.is_whitespace() {
                return Some(format!("line {} ends with blank U+{:04X}: {:?}", i + 1, c as u32, util::clip(line, 80)));
            }
        }
    }
    None
}

pub fn oracle_c11(ex: &Exec, acc: &mut Acc) -> Verdict {
    acc.count("output_lines_inspected", ex.y.split('\n').count() as u64);
    match hygiene_violation(ex.y) {
        Some(d) => Verdict::Violated { oracle: "hygiene", detail: d },
        None => {
            // non-trivial: the input itself was not hygienic, or ends specially
            let nontrivial = hygiene_violation(ex.x).is_some();
            Verdict::Held { nontrivial }
        }
    }
}

// ------------------------------------------------------------------------------------------------
// C01 normal form

pub fn oracle_c01(ex: &Exec, acc: &mut Acc) -> Verdict {
    let py = typst_syntax::parse(ex.y);
    if py.erroneous() {
        // cannot pair trees; C04 reports this. For C01 it is still a change of meaning.
        return Verdict::Violated {
            oracle: "N(parse(x))==N(parse(y))",
            detail: "output does not parse (see C04)".into(),
        };
    }
    let opts = crate::nf::NfOpts { sort_imports: ex.cfg.reorder };
    let nx = crate::nf::nf(ex.px, opts);
    let ny = crate::nf::nf(&py, opts);
    acc.count("nf_tokens_compared", nx.len() as u64);
    match crate::nf::first_diff(&nx, &ny) {
        None => Verdict::Held { nontrivial: ex.y != ex.x },
        Some((i, a, b)) => Verdict::Violated {
            oracle: "N(parse(x))==N(parse(y))",
            detail: format!("normal forms differ at token {}: input […{}…] output […{}…]", i, a, b),
        },
    }
}

// ------------------------------------------------------------------------------------------------
// C06 comments

pub fn oracle_c06(ex: &Exec, acc: &mut Acc) -> Verdict {
    let py = typst_syntax::parse(ex.y);
    let sx = crate::streams::comment_word_stream(ex.px);
    let ncom = crate::streams::comments_only(&sx).len();
    if ncom == 0 {
        // nothing to observe for this property
        let sy = crate::streams::comment_word_stream(&py);
        if crate::streams::comments_only(&sy).is_empty() {
            return Verdict::Held { nontrivial: false };
        }
        return Verdict::Violated { oracle: "comment-stream", detail: "output contains a comment although the input has none".into() };
    }
    acc.count("comments_tracked", ncom as u64);
    let sy = crate::streams::comment_word_stream(&py);
    match crate::nf::first_diff(&sx, &sy) {
        None => Verdict::Held { nontrivial: ex.y != ex.x },
        Some((i, a, b)) => {
            let cx: Vec<&String> = crate::streams::comments_only(&sx);
            let cy: Vec<&String> = crate::streams::comments_only(&sy);
            let kind = if cx.len() != cy.len() {
                format!("comment count {} -> {}", cx.len(), cy.len())
            } else if cx != cy {
                "comment text/order changed".to_string()
            } else {
                "comment moved across a word (or words changed)".to_string()
            };
            Verdict::Violated {
                oracle: "comment-stream",
                detail: format!("{}; streams differ at {}: input […{}…] output […{}…]", kind, i, a, b),
            }
        }
    }
}

// ------------------------------------------------------------------------------------------------
// C10 literals

pub fn oracle_c10(ex: &Exec, acc: &mut Acc) -> Verdict {
    let py = typst_syntax::parse(ex.y);
    let lx = crate::streams::literal_stream(ex.px);
    let ly = crate::streams::literal_stream(&py);
    acc.count("literals_compared", lx.len() as u64);
    match crate::nf::first_diff(&lx, &ly) {
        None => Verdict::Held { nontrivial: ex.y != ex.x && !lx.is_empty() },
        Some((i, a, b)) => Verdict::Violated {
            oracle: "literal-stream",
            detail: format!("literal sequences differ at {}: input […{}…] output […{}…]", i, a, b),
        },
    }
}

// ------------------------------------------------------------------------------------------------
// C09 math whitespace

pub fn oracle_c09(ex: &Exec, acc: &mut Acc) -> Verdict {
    let gx = crate::streams::math_gaps(ex.px);
    if gx.is_empty() {
        return Verdict::Held { nontrivial: false };
    }
    let py = typst_syntax::parse(ex.y);
    let gy = crate::streams::math_gaps(&py);
    acc.count("math_nodes_paired", gx.len() as u64);
    match crate::nf::first_diff(&gx, &gy) {
        None => Verdict::Held { nontrivial: ex.y != ex.x },
        Some((i, a, b)) => Verdict::Violated {
            oracle: "math-gaps",
            detail: format!(
                "math gap sequences differ at node {} ('|' none, '_' space, '/' newline): input […{}…] output […{}…]",
                i, a, b
            ),
        },
    }
}

// ------------------------------------------------------------------------------------------------
// C08 prose

pub fn oracle_c08(ex: &Exec, acc: &mut Acc) -> Verdict {
    let py = typst_syntax::parse(ex.y);
    let ax = crate::streams::all_prose(ex.px);
    let ay = crate::streams::all_prose(&py);
    let nlines: usize = ax.iter().map(|l| l.len()).sum();
    let nprose: usize = ax.iter().map(|l| l.iter().filter(|x| x.has_prose).count()).sum();
    acc.count("markup_nodes_paired", ax.len() as u64);
    acc.count("prose_lines_compared", nprose as u64);
    if ax.len() != ay.len() {
        return Verdict::Violated {
            oracle: "prose-lines",
            detail: format!("number of markup nodes changed: {} -> {}", ax.len(), ay.len()),
        };
    }
    for (mi, (lx, ly)) in ax.iter().zip(ay.iter()).enumerate() {
        if lx.len() != ly.len() {
            let tx: Vec<&str> = lx.iter().map(|l| l.text.as_str()).collect();
            let ty: Vec<&str> = ly.iter().map(|l| l.text.as_str()).collect();
            return Verdict::Violated {
                oracle: "prose-lines",
                detail: format!("markup node {}: line count {} -> {}: {:?} vs {:?}", mi, lx.len(), ly.len(), util::clip(&format!("{:?}", tx), 200), util::clip(&format!("{:?}", ty), 200)),
            };
        }
        for (li, (a, b)) in lx.iter().zip(ly.iter()).enumerate() {
            if a.text != b.text {
                return Verdict::Violated {
                    oracle: "prose-lines",
                    detail: format!("markup node {} line {}: text {:?} -> {:?}", mi, li, a.text, b.text),
                };
            }
            if a.sep != b.sep {
                return Verdict::Violated {
                    oracle: "prose-lines",
                    detail: format!(
                        "markup node {} line {} ({:?}): separator {} -> {} (0 end, 1 line break, n paragraph break with n line feeds)",
                        mi, li, util::clip(&a.text, 40), a.sep, b.sep
                    ),
                };
            }
            if !a.multiline_markup && b.multiline_markup {
                // strong/emph is markup, not embedded code: nothing can force a break inside it
                return Verdict::Violated {
                    oracle: "prose-one-line",
                    detail: format!("markup node {} line {} ({:?}): a strong/emph element that was on one source line now spans several lines (a blank of its body became a line break)", mi, li, util::clip(&a.text, 60)),
                };
            }
            if a.has_text && !a.multiline_src && b.multiline_src {
                // Breaks that even an unlimited width cannot avoid (a code block with several statements, a line
                // comment, …) are not rewrapping: the narrow layout may not fold the line where the unlimited one does not.
                let forced = match fmtx::fmt(ex.x, Cfg::new(fmtx::W_INF, ex.cfg.tab, ex.cfg.reorder)) {
                    FmtOut::Ok(yi) => {
                        let ai = crate::streams::all_prose(&typst_syntax::parse(&yi));
                        ai.get(mi).and_then(|l| l.get(li)).map(|l| l.multiline_src).unwrap_or(false)
                    }
                    _ => false,
                };
                if forced {
                    acc.count("prose_lines_with_forced_breaks_inside_embedded_code", 1);
                    continue;
                }
                return Verdict::Violated {
                    oracle: "prose-one-line",
                    detail: format!("markup node {} line {} ({:?}) was one source line and stays one line at unlimited width, but this width folds it over several lines", mi, li, util::clip(&a.text, 60)),
                };
            }
        }
    }
    Verdict::Held { nontrivial: nprose > 0 && ex.y != ex.x && nlines > 0 }
}

pub fn oracle_for(prop: &str) -> Option<(&'static Oracle, bool)> {
    Some(match prop {
        "C01" => (&oracle_c01, true),
        "C03" => (&oracle_c03, false),
        "C04" => (&oracle_c04, true),
        "C06" => (&oracle_c06, true),
        "C08" => (&oracle_c08, true),
        "C09" => (&oracle_c09, true),
        "C10" => (&oracle_c10, true),
        "C11" => (&oracle_c11, true),
        _ => return None,
    })
}

/// Re-evaluate a tree property on one (input, cfg): Some(true) = violated, Some(false) = held, None = inconclusive.
pub fn violated(prop: &str, input: &str, cfg: Cfg) -> Option<bool> {
    let (oracle, per_output) = oracle_for(prop)?;
    let chk = TreeCheck { property: prop, per_output, oracle };
    let mut acc = Acc::new();
    run_case(&chk, &Case::new(input, "recheck"), &[cfg], &mut acc);
    if !acc.violations.is_empty() {
        Some(true)
    } else if acc.held > 0 {
        Some(false)
    } else {
        None
    }
}
