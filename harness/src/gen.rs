//! Deterministic generators `index -> source` (DESIGN.md §3.3). Each is a closed pool of GEN_N indices.

use crate::pools::{GenPool, Pool};
use crate::tree;
use crate::util::Rng;

pub const GEN_N: usize = 20_000;

const WORDS: [&str; 24] = [
    "lorem", "ipsum", "dolor", "sit", "amet", "consectetur", "adipiscing", "elit", "sed", "do", "eiusmod", "tempor", "a", "I",
    "x1", "naïve", "中文", "co-op", "e.g.", "3.14", "(paren)", "semi;colon", "comma,", "end.",
];
const IDENTS: [&str; 12] = ["x", "y", "foo", "bar_baz", "a-b", "long_identifier_name", "f", "g", "item", "it", "args", "self"];
const FUNCS: [&str; 10] = ["f", "text", "box", "block", "strong", "calc.max", "g", "rect", "link", "h"];

fn word(r: &mut Rng) -> &'static str {
    WORDS[r.below(WORDS.len())]
}
fn ident(r: &mut Rng) -> &'static str {
    IDENTS[r.below(IDENTS.len())]
}

// ------------------------------------------------------------------------------------------------
// code expressions (untyped: only need to parse)

pub fn expr(r: &mut Rng, depth: usize) -> String {
    if depth == 0 {
        return atom(r);
    }
    match r.below(22) {
        0 => format!("({}, {})", expr(r, depth - 1), expr(r, depth - 1)),
        1 => format!("({},)", expr(r, depth - 1)),
        2 => format!("({}: {}, {}: {})", ident(r), expr(r, depth - 1), ident(r), expr(r, depth - 1)),
        3 => format!("{} + {}", expr(r, depth - 1), expr(r, depth - 1)),
        4 => format!("{} * ({} - {})", atom(r), expr(r, depth - 1), atom(r)),
        5 => format!("{}({})", r.pick(&FUNCS), args(r, depth - 1)),
        6 => format!("{}({})[{}]", r.pick(&FUNCS), args(r, depth - 1), prose(r, 3)),
        7 => format!("{}.{}({})", ident(r), ident(r), args(r, depth - 1)),
        8 => format!("{}.{}({}).{}({})", ident(r), ident(r), args(r, depth - 1), ident(r), args(r, depth - 1)),
        9 => format!("{} => {}", ident(r), expr(r, depth - 1)),
        10 => format!("({}, {}) => {}", ident(r), ident(r), expr(r, depth - 1)),
        11 => format!("if {} {{ {} }} else {{ {} }}", cond(r), expr(r, depth - 1), expr(r, depth - 1)),
        12 => format!("{{ let {} = {}; {} }}", ident(r), expr(r, depth - 1), expr(r, depth - 1)),
        13 => format!("[{}]", prose(r, 4)),
        14 => format!("not {}", atom(r)),
        15 => format!("-{}", atom(r)),
        16 => format!("{} and {} or {}", cond(r), cond(r), cond(r)),
        17 => format!("({})", expr(r, depth - 1)),
        18 => format!("for {} in {} {{ {} }}", ident(r), expr(r, depth - 1), expr(r, depth - 1)),
        19 => format!("{}.at({})", ident(r), atom(r)),
        20 => format!("(..{}, {})", ident(r), expr(r, depth - 1)),
        _ => format!("${}$", math_seq(r, 3, 1)),
    }
}

fn cond(r: &mut Rng) -> String {
    match r.below(5) {
        0 => format!("{} == {}", ident(r), atom(r)),
        1 => format!("{} in {}", atom(r), ident(r)),
        2 => format!("{} not in {}", atom(r), ident(r)),
        3 => format!("{} < {}", ident(r), atom(r)),
        _ => ident(r).to_string(),
    }
}

fn atom(r: &mut Rng) -> String {
    match r.below(14) {
        0 => format!("{}", r.below(1000)),
        1 => format!("{}.{}", r.below(10), r.below(100)),
        2 => format!("{}pt", r.below(20)),
        3 => format!("{}em", r.below(5)),
        4 => format!("{}%", r.below(100)),
        5 => format!("\"{}\"", word(r)),
        6 => "none".into(),
        7 => "auto".into(),
        8 => "true".into(),
        9 => format!("\"{} {}\"", word(r), word(r)),
        10 => "0xff".into(),
        11 => format!("<{}>", ident(r)),
        _ => ident(r).to_string(),
    }
}

fn args(r: &mut Rng, depth: usize) -> String {
    let n = r.below(4);
    let mut v = vec![];
    for _ in 0..n {
        v.push(match r.below(5) {
            0 => format!("{}: {}", ident(r), expr(r, depth)),
            1 => format!("..{}", ident(r)),
            _ => expr(r, depth),
        });
    }
    let sep = if r.chance(1, 5) { ",\n  " } else { ", " };
    let mut s = v.join(sep);
    if !s.is_empty() && r.chance(1, 5) {
        s.push(',');
    }
    s
}

// ------------------------------------------------------------------------------------------------
// prose

fn inline_elem(r: &mut Rng) -> String {
    match r.below(22) {
        // a content block whose body is a block-level item, sitting inside a prose line
        18 => format!("#box[- {} {}]", word(r), word(r)),
        19 => format!("#{}[+ {}]", r.pick(&FUNCS), word(r)),
        20 => format!("#box[/ {}: {}]", word(r), word(r)),
        21 => format!("*#box[- {}]*", word(r)),
        0 => format!("#{}", ident(r)),
        1 => format!("#{}({})", r.pick(&FUNCS), args(r, 1)),
        2 => format!("#{}[{}]", r.pick(&FUNCS), word(r)),
        3 => format!("${}$", math_seq(r, 3, 1)),
        4 => format!("`{}`", word(r)),
        5 => format!("*{} {}*", word(r), word(r)),
        6 => format!("_{}_", word(r)),
        7 => format!("https://example.com/{}", ident(r)),
        8 => format!("<{}>", ident(r)),
        9 => format!("@{}", ident(r)),
        10 => "\\#".into(),
        11 => "--".into(),
        12 => "\"quoted\"".into(),
        13 => format!("#({})", expr(r, 1)),
        14 => format!("#{}.{}({}).{}({})", ident(r), ident(r), args(r, 1), ident(r), args(r, 1)),
        15 => format!("#{}({}, {}, {}, {})", r.pick(&FUNCS), expr(r, 1), expr(r, 1), expr(r, 1), expr(r, 1)),
        16 => format!("@{}[{}]", ident(r), word(r)),
        _ => format!("#[{} {}]", word(r), word(r)),
    }
}

/// A one-line run of prose with inline elements.
pub fn prose(r: &mut Rng, n: usize) -> String {
    let mut parts: Vec<String> = vec![];
    for _ in 0..n.max(1) {
        if r.chance(1, 4) {
            parts.push(inline_elem(r));
        } else {
            parts.push(word(r).to_string());
        }
    }
    // words must not start a line with a markup marker
    let s = parts.join(" ");
    s
}

fn safe_line_n(r: &mut Rng, base: usize, extra: usize) -> String {
    let n = base + r.below(extra);
    safe_line(r, n)
}

fn safe_line(r: &mut Rng, n: usize) -> String {
    let mut s = prose(r, n);
    // avoid accidental markers at line start
    while s.starts_with(['-', '+', '/', '=']) || s.chars().next().map(|c| c.is_ascii_digit()).unwrap_or(false) {
        s = format!("{} {}", "Word", s);
    }
    s
}

pub fn gen_markup(i: u64) -> Option<String> {
    let mut r = Rng::new(i ^ 0x4d41_524b);
    let mut out = String::new();
    let blocks = 1 + r.below(6);
    for b in 0..blocks {
        match r.below(10) {
            0 => {
                out.push_str(&"=".repeat(1 + r.below(3)));
                out.push(' ');
                out.push_str(&safe_line_n(&mut r, 1, 5));
                if r.chance(1, 4) {
                    out.push_str(" <lbl>");
                }
            }
            1 | 2 => {
                // nested list
                let marker = *r.pick(&["-", "+"]);
                let items = 1 + r.below(4);
                let mut depth = 0usize;
                for k in 0..items {
                    if k > 0 {
                        out.push('\n');
                        depth = match r.below(3) {
                            0 => depth + 1,
                            1 => depth.saturating_sub(1),
                            _ => depth,
                        }
                        .min(3);
                    }
                    out.push_str(&"  ".repeat(depth));
                    out.push_str(marker);
                    out.push(' ');
                    out.push_str(&safe_line_n(&mut r, 1, 6));
                    if r.chance(1, 4) {
                        out.push('\n');
                        out.push_str(&"  ".repeat(depth + 1));
                        out.push_str(&safe_line_n(&mut r, 1, 4));
                    }
                }
            }
            3 => {
                let items = 1 + r.below(3);
                for k in 0..items {
                    if k > 0 {
                        out.push('\n');
                    }
                    out.push_str(&format!("/ {}: {}", word(&mut r), safe_line_n(&mut r, 1, 5)));
                }
            }
            4 => {
                out.push_str(&format!("#let {} = {}", ident(&mut r), expr(&mut r, 2)));
            }
            5 => {
                out.push_str(&format!("$ {} $", math_seq(&mut r, 5, 2)));
            }
            6 => {
                out.push_str("```py\n");
                out.push_str(word(&mut r));
                out.push_str("\n  ");
                out.push_str(word(&mut r));
                out.push_str("\n```");
            }
            _ => {
                // paragraph of 1-4 lines
                let lines = 1 + r.below(4);
                for k in 0..lines {
                    if k > 0 {
                        out.push('\n');
                    }
                    let n = 2 + r.below(14);
                    out.push_str(&safe_line(&mut r, n));
                    if r.chance(1, 10) {
                        out.push_str(" \\");
                    }
                }
            }
        }
        if b + 1 < blocks {
            let lf = if r.chance(1, 6) { 1 } else { 2 + r.below(4) };
            out.push_str(&"\n".repeat(lf));
        }
    }
    if r.chance(1, 2) {
        out.push('\n');
    }
    tree::parse_ok(&out).map(|_| out)
}

// ------------------------------------------------------------------------------------------------
// math

const MATH_ATOMS: [&str; 26] = [
    "a", "b", "x", "y", "1", "2", "10", "alpha", "beta", "pi", "+", "-", "=", "dot", "times", "->", "<=", "!=", "sum", "integral",
    "\"text\"", "dif", "oo", "RR", "dots", "1.5",
];
const MATH_FUNCS: [&str; 10] = ["sin", "cos", "sqrt", "frac", "vec", "mat", "cases", "binom", "abs", "op"];

fn math_atom(r: &mut Rng, depth: usize) -> String {
    if depth == 0 {
        return r.pick(&MATH_ATOMS).to_string();
    }
    match r.below(26) {
        0 => format!("{}_{}", r.pick(&MATH_ATOMS[..8]), math_atom(r, 0)),
        1 => format!("{}^{}", r.pick(&MATH_ATOMS[..8]), math_atom(r, 0)),
        2 => format!("{}_({})^({})", r.pick(&MATH_ATOMS[..8]), math_seq(r, 2, depth - 1), math_seq(r, 2, depth - 1)),
        3 => format!("({})", math_seq(r, 3, depth - 1)),
        4 => format!("[{}]", math_seq(r, 2, depth - 1)),
        5 => format!("{} / {}", math_atom(r, depth - 1), math_atom(r, depth - 1)),
        6 => format!("({}) / ({})", math_seq(r, 2, depth - 1), math_seq(r, 2, depth - 1)),
        7 => format!("{}({})", r.pick(&MATH_FUNCS), math_seq(r, 2, depth - 1)),
        8 => format!("{}({}, {})", r.pick(&MATH_FUNCS), math_seq(r, 2, depth - 1), math_seq(r, 1, depth - 1)),
        9 => format!("mat({}, {}; {}, {})", math_atom(r, 0), math_atom(r, 0), math_atom(r, 0), math_atom(r, 0)),
        10 => format!("√{}", r.pick(&MATH_ATOMS[..8])),
        11 => format!("{}'", r.pick(&MATH_ATOMS[..8])),
        12 => format!("#{}", ident(r)),
        13 => format!("#{}({})", r.pick(&FUNCS), args(r, 0)),
        14 => format!("{}.{}", r.pick(&["alpha", "arrow", "dots", "beta"]), r.pick(&["alt", "r", "l", "c"])),
        15 => format!("|{}|", math_seq(r, 2, depth - 1)),
        16 => format!("{}{}", r.pick(&MATH_ATOMS[..5]), r.pick(&MATH_ATOMS[..5])),
        17 => format!("cases({} \"if\" {}, {} \"else\")", math_atom(r, 0), math_atom(r, 0), math_atom(r, 0)),
        18 => format!("{}({} {}: {})", r.pick(&MATH_FUNCS), math_atom(r, 0), ident(r), math_atom(r, 0)).replace(" x:", ", x:").replace(" y:", ", y:"),
        // embedded calls with arguments AND a trailing content block as operands of attach / fraction / root
        19 => format!("{}^#text(red)[{}]", r.pick(&MATH_ATOMS[..8]), r.below(9)),
        20 => format!("{}_#box(stroke: red)[{}] / #text(blue)[{}]", r.pick(&MATH_ATOMS[..8]), r.below(9), r.below(9)),
        21 => format!("√#strong[{}]", r.below(9)),
        // rows of 2-D arguments whose last item ends in code embedded with `#`, followed by the row separator with and
        // without a blank (`#x ;` — separator; `#x;` — terminator of the embedded expression)
        22 => {
            let tails = ["#x", "#calc.pow(2, 3)", "#v.a", "#(1 + 1)", "#[z]", "#{ 1 }", "#f(1)[y]", "#\"s\"", "#none", "#x.y.z", "#f(1).g(2)"];
            let seps = [" ; ", "; ", " ;", ";", "  ;  "];
            format!(
                "mat({}, {}{}{}, {}{}{})",
                math_atom(r, 0),
                r.pick(&tails),
                r.pick(&seps),
                math_atom(r, 0),
                r.pick(&tails),
                r.pick(&seps),
                math_atom(r, 0)
            )
        }
        23 => {
            let tails = ["#x", "#calc.pow(2, 3)", "#v.a", "#(1 + 1)", "#[z]"];
            format!("vec({} ; {} , {})", r.pick(&tails), r.pick(&tails), r.pick(&tails))
        }
        _ => r.pick(&MATH_ATOMS).to_string(),
    }
}

pub fn math_seq(r: &mut Rng, n: usize, depth: usize) -> String {
    let mut s = String::new();
    for k in 0..n.max(1) {
        if k > 0 {
            s.push_str(match r.below(12) {
                0 => "",
                1 => "  ",
                _ => " ",
            });
        }
        s.push_str(&math_atom(r, depth));
    }
    s
}

pub fn gen_math(i: u64) -> Option<String> {
    let mut r = Rng::new(i ^ 0x4d41_5448);
    let mut out = String::new();
    let n = 1 + r.below(3);
    for k in 0..n {
        if k > 0 {
            out.push_str(*r.pick(&["\n", "\n\n", " and "]));
        }
        let body_lines = 1 + if r.chance(1, 3) { r.below(3) } else { 0 };
        let block = r.chance(1, 2) || body_lines > 1;
        let mut body = String::new();
        for l in 0..body_lines {
            if l > 0 {
                body.push_str(*r.pick(&[" \\\n  ", "\n  ", " \\\n"]));
            }
            if body_lines > 1 && r.chance(1, 2) {
                body.push_str("& ");
            }
            let len = 1 + r.below(7);
            body.push_str(&math_seq(&mut r, len, 2));
        }
        if block {
            let (o, c) = *r.pick(&[(" ", " "), ("\n  ", "\n"), (" ", "\n"), ("\n", " ")]);
            out.push_str(&format!("${}{}{}$", o, body, c));
        } else {
            out.push_str(&format!("${}$", body));
        }
    }
    // sometimes nest in code / content
    let out = match r.below(6) {
        0 => format!("#let eq = {}", out.lines().next().unwrap_or("$x$")),
        1 => format!("#f[{}]", out),
        2 => format!("- {}", out.replace('\n', "\n  ")),
        _ => out,
    };
    tree::parse_ok(&out).map(|_| out)
}

// ------------------------------------------------------------------------------------------------
// imports

const MODS: [&str; 6] = ["\"a.typ\"", "\"@preview/pkg:0.1.0\"", "mod", "a.b", "\"../lib.typ\"", "calc"];
const NAMES: [&str; 12] = ["zeta", "alpha", "beta", "Gamma", "delta", "a", "b", "c", "x1", "x10", "x2", "_u"];

pub fn import_stmt(r: &mut Rng, allow_comments: bool, allow_dups: bool) -> String {
    let n = 1 + r.below(7);
    let mut names: Vec<&str> = NAMES.to_vec();
    r.shuffle(&mut names);
    let mut items: Vec<String> = vec![];
    for k in 0..n {
        let base = if allow_dups && k > 0 && r.chance(1, 6) { names[0] } else { names[k % names.len()] };
        if allow_dups && k > 0 && r.chance(1, 5) {
            // two items binding the same name through different nested paths / a path and a plain item
            let h = names[1];
            items.push(match r.below(3) {
                0 => format!("{}.{}", names[(k + 2) % names.len()], h),
                1 => h.to_string(),
                _ => format!("{}.inner.{}", names[(k + 4) % names.len()], h),
            });
            items.push(format!("{}.{}", base, h));
            continue;
        }
        let item = match r.below(6) {
            0 => format!("{} as {}", base, names[(k + 5) % names.len()]),
            1 => format!("{}.{}", base, names[(k + 3) % names.len()]),
            2 => format!("{}.{} as {}", base, names[(k + 3) % names.len()], names[(k + 7) % names.len()]),
            _ => base.to_string(),
        };
        items.push(item);
    }
    if allow_comments {
        let k = r.below(items.len());
        items[k] = match r.below(5) {
            0 => format!("/* c */ {}", items[k]),
            1 => format!("{} /* c */", items[k]),
            2 => items[k].replacen(" as ", " /* c */ as ", 1),
            3 => items[k].replacen('.', "/* c */.", 1),
            _ => format!("{} // c\n ", items[k]),
        };
    }
    let multiline = r.chance(1, 4) || items.iter().any(|i| i.contains("// c"));
    let parens = multiline || r.chance(1, 4);
    let sep = if multiline { ",\n  " } else { ", " };
    let mut body = items.join(sep);
    if r.chance(1, 4) || multiline {
        body.push(',');
    }
    let body = if parens {
        if multiline {
            format!("(\n  {}\n)", body)
        } else {
            format!("({})", body)
        }
    } else {
        body
    };
    let m = r.pick(&MODS);
    let rename = if r.chance(1, 6) { format!(" as {}", ident(r)) } else { String::new() };
    format!("import {}{}: {}", m, rename, body)
}

pub fn gen_import(i: u64) -> Option<String> {
    let mut r = Rng::new(i ^ 0x494d_504f);
    let comments = r.chance(1, 4);
    let dups = r.chance(1, 4);
    let stmt = match r.below(12) {
        0 => format!("import {}: *", r.pick(&MODS)),
        1 => format!("import {}", r.pick(&MODS)),
        _ => import_stmt(&mut r, comments, dups),
    };
    let out = match r.below(6) {
        0 => format!("#{{\n  {}\n  {}\n}}", stmt.replace('\n', "\n  "), ident(&mut r)),
        1 => format!("#let f() = {{\n  {}\n}}", stmt.replace('\n', "\n  ")),
        2 => format!("text before\n#{}\ntext after {}", stmt, word(&mut r)),
        3 => format!("#{}\n#{}", stmt, import_stmt(&mut r, false, false)),
        _ => format!("#{}", stmt),
    };
    tree::parse_ok(&out).map(|_| out)
}

/// C19 only: parenthesised multi-line imports whose items are grouped by blank lines (and hand-indented oddly).
pub fn gen_import_blank(i: u64) -> Option<String> {
    let mut r = Rng::new(i ^ 0x4942_4c4b);
    let n = 2 + r.below(6);
    let mut names: Vec<&str> = NAMES.to_vec();
    r.shuffle(&mut names);
    let mut body = String::from("(\n");
    for k in 0..n {
        let base = names[k % names.len()];
        let item = match r.below(5) {
            0 => format!("{} as {}", base, names[(k + 5) % names.len()]),
            1 => format!("{}.{}", base, names[(k + 3) % names.len()]),
            _ => base.to_string(),
        };
        body.push_str(["  ", "", "      ", "\t"][r.below(4)]);
        body.push_str(&item);
        body.push(',');
        body.push_str(["\n", "\n\n", "\n\n\n", " ", "\n  \n"][r.below(5)]);
    }
    body.push(')');
    let stmt = format!("import {}: {}", r.pick(&MODS), body);
    let out = match r.below(4) {
        0 => format!("#{{\n  {}\n}}", stmt),
        1 => format!("text\n#{}\nmore", stmt),
        _ => format!("#{}", stmt),
    };
    tree::parse_ok(&out).map(|_| out)
}

// ------------------------------------------------------------------------------------------------
// tables

pub fn gen_table(i: u64) -> Option<String> {
    let mut r = Rng::new(i ^ 0x5441_424c);
    let f = *r.pick(&["table", "grid"]);
    let cols = match r.below(10) {
        0 => "columns: auto".to_string(),
        1 => "columns: (1fr, 2fr, auto)".to_string(),
        2 => "columns: 0".to_string(),
        3 => "columns: (1fr,) * 3".to_string(),
        4 => String::new(),
        5 => "columns: 1".to_string(),
        6 => "columns: (auto, auto)".to_string(),
        _ => format!("columns: {}", 1 + r.below(5)),
    };
    let ncells = r.below(13);
    let mut args: Vec<String> = vec![];
    if !cols.is_empty() {
        args.push(cols);
    }
    if r.chance(1, 3) {
        args.push(format!("{}: {}", r.pick(&["stroke", "fill", "align", "inset", "gutter"]), atom(&mut r)));
    }
    if r.chance(1, 5) {
        args.push(format!("{}.header([H1], [H2])", f));
    }
    for c in 0..ncells {
        let cell = match r.below(14) {
            0 => format!("{}.cell(colspan: 2)[x{}]", f, c),
            1 => format!("{}.hline()", f),
            2 => format!("..{}", ident(&mut r)),
            3 => format!("\"s{}\"", c),
            4 => format!("{}", c),
            5 => format!("${}$", math_seq(&mut r, 2, 1)),
            6 => format!("{}: {}", r.pick(&["stroke", "fill"]), atom(&mut r)),
            7 => format!("/* c{} */ [x{}]", c, c),
            8 => format!("[{}]", prose(&mut r, 3)),
            _ => format!("[x{}]", c),
        };
        args.push(cell);
    }
    if r.chance(1, 6) {
        args.push(format!("{}.footer([F1], [F2])", f));
    }
    let sep = match r.below(4) {
        0 => ",\n  ",
        1 => ",",
        _ => ", ",
    };
    let mut body = args.join(sep);
    if r.chance(1, 3) && !body.is_empty() {
        body.push(',');
    }
    let call = if sep.contains('\n') { format!("{}(\n  {}\n)", f, body) } else { format!("{}({})", f, body) };
    let trailing = if r.chance(1, 8) { "[extra]" } else { "" };
    let out = match r.below(5) {
        0 => format!("#figure({}{}, caption: [cap])", call, trailing),
        1 => format!("#align(center, {}{})", call, trailing),
        2 => format!("#{{\n  {}{}\n}}", call.replace('\n', "\n  "), trailing),
        _ => format!("#{}{}", call, trailing),
    };
    tree::parse_ok(&out).map(|_| out)
}

// ------------------------------------------------------------------------------------------------
// nesting families

pub const NEST_FAMILIES: usize = 26;

/// Wrap `inner` with wrapper `w`. Code-level wrappers take/return a code expression.
/// Families 0..NEST_FAMILIES take part in the mixed nestings of G-NEST; NEST_FAMILIES..NEST_FAMILIES_ALL are pure ladders only
/// (C18, C05): calls nested through their trailing content blocks, spreads, statements, left-nested operands, …
pub const NEST_FAMILIES_ALL: usize = 60;

pub fn wrap(w: usize, inner: &str) -> String {
    if w >= NEST_FAMILIES && w < NEST_FAMILIES_ALL {
        // after `#`, a call needs no parentheses: `#f[#f[#x]]`
        let is_call = inner.starts_with(|c: char| c.is_ascii_lowercase())
            && (inner.ends_with(']') || inner.ends_with(')'))
            && !["not ", "context ", "while ", "if ", "for "].iter().any(|k| inner.starts_with(k));
        let h = if is_call { inner.to_string() } else { paren_if_needed(inner) };
        return match w {
            26 => format!("f[#{}]", h),
            27 => format!("f(a)[#{}]", h),
            28 => format!("f[a][#{}]", h),
            29 => format!("g.h(1)[#{}]", h),
            30 => format!("f(1, k: 2)[#{}][b]", h),
            31 => format!("table(columns: 1, [#{}])", h),
            32 => format!("(..{},)", h),
            33 => format!("f(..{})", h),
            34 => format!("{{ let y = {}; y }}", inner),
            35 => format!("while c {{ {} }}", inner),
            36 => format!("context {}", h),
            37 => format!("not {}", h),
            38 => format!("{} + 1", h),
            39 => format!("{}.f", h),
            40 => format!("{}(1)", h),
            41 => format!("f({})[x]", inner),
            42 => format!("(a, {}) => 1", if inner.chars().all(|c| c.is_alphanumeric()) && inner.starts_with(|c: char| c.is_alphabetic()) { inner.to_string() } else { format!("b: {}", inner) }),
            43 => format!("[#set text(red)[#{}]]", h),
            // tables/grids whose layout analysis gives up late: the nested call comes first, the argument that makes the table
            // "not formatable as a grid" (cell call, spread, named argument after a positional one, line) comes after it
            44 => format!("grid(columns: 1, {}, grid.cell[c])", inner),
            45 => format!("grid(columns: 1, [x], {}, ..rest)", inner),
            46 => format!("table(columns: 1, {}, stroke: none)", inner),
            47 => format!("table(columns: 2, [a], {}, table.hline(), [b])", inner),
            48 => format!("table(columns: 2, table.header[h], {})", inner),
            49 => format!("table(columns: (1fr, auto), {}, [b], // c\n [d])", inner),
            // a late argument of another kind after the nested call (fallbacks of argument layout)
            50 => format!("f({}, ..r)[t]", inner),
            51 => format!("a.b({}, k: 1).c(..r)", inner),
            52 => format!("f({}, x => x, [t])", inner),
            53 => format!("f(({}), (1, 2), k: (a: 1))", inner),
            // comments on lines of their own inside the argument list (layout decisions that are revised after the fact)
            54 => format!("f(\n  // c\n  x => {},\n)", inner),
            55 => format!("f(\n  ({},),\n  /* c */\n)", inner),
            56 => format!("f(\n  /* c */\n  {{ {} }},\n)", inner),
            57 => format!("f(\n  // c\n  [#{}],\n)", h),
            58 => format!("(\n  // c\n  {},\n  1,\n)", inner),
            _ => format!("{{\n  // c\n  {}\n  /* d */\n}}", inner),
        };
    }
    match w % NEST_FAMILIES {
        0 => format!("f({})", inner),
        1 => format!("f(a: {})", inner),
        2 => format!("({}, 1)", inner),
        3 => format!("(k: {})", inner),
        4 => format!("x => {}", inner),
        5 => format!("{{ {} }}", inner),
        6 => format!("[#{}]", paren_if_needed(inner)),
        7 => format!("if c {{ {} }} else {{ 0 }}", inner),
        8 => format!("for i in r {{ {} }}", inner),
        9 => format!("({})", inner),
        10 => format!("1 + {}", paren_if_needed(inner)),
        11 => format!("-{}", paren_if_needed(inner)),
        12 => format!("a.b({}).c", inner),
        13 => format!("a.b({}).c(1).d(2)", inner),
        14 => format!("$({})$", hash_in_math(inner)),
        15 => format!("$sqrt({})$", hash_in_math(inner)),
        16 => format!("$x_({})$", hash_in_math(inner)),
        17 => format!("[- #{}]", paren_if_needed(inner)),
        18 => format!("[*#{}*]", paren_if_needed(inner)),
        19 => format!("{{ show: it => {}; it }}", inner),
        // the compact `ident.field.field(args)` chain, nested in its own argument list (short and long identifiers)
        20 => format!("a.b.c({})", inner),
        21 => format!("configuration_registry.default_settings.with_overrides({})", inner),
        22 => format!("a.b.c(k: {})", inner),
        23 => format!("f(x => a.b.c({}))", inner),
        // closures whose body takes optional delimiters, nested through a call argument
        24 => format!("v => 1 + f({})", inner),
        _ => format!("v => -g({}).h", inner),
    }
}

fn paren_if_needed(inner: &str) -> String {
    let simple = inner.chars().all(|c| c.is_alphanumeric() || c == '_');
    if simple || inner.starts_with('(') && inner.ends_with(')') || inner.starts_with('[') || inner.starts_with('{') {
        inner.to_string()
    } else {
        format!("({})", inner)
    }
}

fn hash_in_math(inner: &str) -> String {
    format!("#{}", paren_if_needed(inner))
}

/// Pure family: the same wrapper `depth` times around `x`.
pub fn nest_pure(family: usize, depth: usize) -> String {
    let mut s = "x".to_string();
    for _ in 0..depth {
        s = wrap(family, &s);
    }
    format!("#{}", paren_if_needed(&s))
}

/// Mixed nesting chosen by index.
pub fn nest_mixed(i: u64, depth: usize) -> String {
    let mut r = Rng::new(i ^ 0x4e45_5354);
    let mut s = atom(&mut r);
    // indices from 2 000 000 mix all families (the pure-ladder ones included); below, the first NEST_FAMILIES as before
    let nf = if i >= 2_000_000 { NEST_FAMILIES_ALL } else { NEST_FAMILIES };
    for _ in 0..depth {
        s = wrap(r.below(nf), &s);
    }
    format!("#{}", paren_if_needed(&s))
}

pub fn gen_nest(i: u64) -> Option<String> {
    let depth = 1 + (i % 7) as usize;
    let out = if i % 5 == 0 { nest_pure((i / 5) as usize % NEST_FAMILIES, depth) } else { nest_mixed(i, depth) };
    tree::parse_ok(&out).map(|_| out)
}

/// Code-heavy documents: statements built from `expr`.
pub fn gen_code(i: u64) -> Option<String> {
    let mut r = Rng::new(i ^ 0x434f_4445);
    let n = 1 + r.below(5);
    let mut out = String::new();
    for k in 0..n {
        if k > 0 {
            out.push_str(*r.pick(&["\n", "\n\n"]));
        }
        let d = 1 + r.below(3);
        let stmt = match r.below(10) {
            0 => format!("#let {} = {}", ident(&mut r), expr(&mut r, d)),
            1 => format!("#let {}({}, {}: {}) = {}", ident(&mut r), ident(&mut r), ident(&mut r), atom(&mut r), expr(&mut r, d)),
            2 => format!("#set {}({})", r.pick(&["text", "par", "page"]), args(&mut r, 1)),
            3 => format!("#show {}: {}", r.pick(&["heading", "\"x\"", "strong", "<l>"]), expr(&mut r, d)),
            4 => format!("#show: {}", expr(&mut r, d)),
            5 => format!("#{{\n  let {} = {}\n  {}\n}}", ident(&mut r), expr(&mut r, d), expr(&mut r, d)),
            6 => format!("#if {} {{\n  {}\n}} else {{\n  {}\n}}", cond(&mut r), expr(&mut r, d), expr(&mut r, d)),
            7 => format!("#let ({}, {}) = {}", ident(&mut r), ident(&mut r), expr(&mut r, d)),
            8 => format!("#context {}", expr(&mut r, d)),
            _ => format!("#{}", paren_if_needed(&expr(&mut r, d))),
        };
        out.push_str(&stmt);
    }
    tree::parse_ok(&out).map(|_| out)
}


// ------------------------------------------------------------------------------------------------
// G-BODY: every context that wraps its body in *optional* delimiters × every breakable inner construct.
// This is the mechanism C01 rests on (Mode tracking: a line break inside an expression is only legal where a
// newline cannot end the statement), enumerated systematically instead of hoping a splice finds it.

fn long_ident(r: &mut Rng, k: usize) -> String {
    let base = ["alpha", "beta", "gamma", "delta", "epsilon", "zeta", "eta", "theta"][k % 8];
    let reps = 1 + r.below(3);
    format!("{}{}", base, "_long".repeat(reps))
}

fn inner_breakable(r: &mut Rng, which: usize) -> String {
    let n = 2 + r.below(4);
    let ids: Vec<String> = (0..n + 2).map(|k| long_ident(r, k)).collect();
    match which % 16 {
        0 => ids[..n].join(" + "),
        1 => ids[..n].join(" and "),
        2 => format!("{} == {} or {} != {}", ids[0], ids[1], ids[2], ids[3]),
        3 => format!("{} - {} * {} / {}", ids[0], ids[1], ids[2], ids[3]),
        4 => format!("{}.{}({}).{}({}).{}()", ids[0], ids[1], ids[2], ids[1], ids[3], ids[2]),
        5 => format!("{}({}, {}, {}: {})", ids[0], ids[1], ids[2], ids[3], ids[1]),
        6 => format!("{} = {}", ids[0], ids[1..n].join(" + ")),
        7 => format!("{} += {}", ids[0], ids[1..n].join(" * ")),
        8 => format!("-{}", ids[..n].join(" - ")),
        9 => format!("not {}", ids[..n].join(" or ")),
        10 => format!("return {}", ids[..n].join(" + ")),
        11 => format!("if {} {{ {} }} else {{ {} }}", ids[0], ids[1], ids[2]),
        12 => format!("{} in {} not in {}", ids[0], ids[1], ids[2]),
        13 => format!("{} => {}", ids[0], ids[1..n].join(" + ")),
        14 => format!("({}, {}).{}", ids[0], ids[1], ids[2]),
        _ => format!("{} + {}.{}({}) - {}[{}]", ids[0], ids[1], ids[2], ids[3], ids[1], ids[2]),
    }
}

pub const BODY_CONTEXTS: usize = 22;

fn body_context(ctx: usize, inner: &str) -> String {
    match ctx % BODY_CONTEXTS {
        0 => format!("#let f = x => {}", inner),
        1 => format!("#let f(x) = {}", inner),
        2 => format!("#let v = {}", inner),
        3 => format!("#for i in {} {{ i }}", inner),
        4 => format!("#f(key: {})", inner),
        5 => format!("#{{\n  let v = {}\n  v\n}}", inner),
        6 => format!("#{{\n  {}\n}}", inner),
        7 => format!("#show: it => {}", inner),
        8 => format!("#show heading: {}", inner),
        9 => format!("#set text(red) if {}", inner),
        10 => format!("#(1, {})", inner),
        11 => format!("#(key: {})", inner),
        12 => format!("#f({})", inner),
        13 => format!("#if {} {{ 1 }}", inner),
        14 => format!("#while {} {{ 1 }}", inner),
        15 => format!("#context {}", inner),
        16 => format!("#let f = (x, y) => z => {}", inner),
        17 => format!("#f(x => {})", inner),
        18 => format!("text #({}) text", inner),
        19 => format!("#{{\n  f(x => {})\n  g\n}}", inner),
        20 => format!("$ #({}) $", inner),
        _ => format!("#let g(x) = {{\n  if x {{ return }}\n  {}\n}}", inner),
    }
}

pub fn gen_body(i: u64) -> Option<String> {
    let mut r = Rng::new(i ^ 0x424f_4459);
    let ctx = (i as usize) % BODY_CONTEXTS;
    let which = (i as usize / BODY_CONTEXTS) % 16;
    let inner = inner_breakable(&mut r, which);
    let out = body_context(ctx, &inner);
    tree::parse_ok(&out).map(|_| out)
}

// ------------------------------------------------------------------------------------------------
// wide (flat) families: size grows, nesting does not — per-node work must stay constant

pub const WIDE_FAMILIES: usize = 10;

pub fn wide(family: usize, n: usize) -> String {
    let n = n.max(1);
    match family % WIDE_FAMILIES {
        0 => format!("#let x = {}", vec!["alpha"; n].join(" + ")),
        1 => format!("#let x = v{}", ".map(it => it + 1)".repeat(n)),
        2 => format!("#let x = ({})", (0..n).map(|i| format!("item{}", i)).collect::<Vec<_>>().join(", ")),
        3 => format!("#f({})", (0..n).map(|i| format!("k{}: v{}", i, i)).collect::<Vec<_>>().join(", ")),
        4 => format!("#{{\n{}}}", (0..n).map(|i| format!("  let v{} = {}\n", i, i)).collect::<String>()),
        5 => (0..n).map(|i| format!("Line {} with #f({}) and $x_{}$ text.\n", i, i, i)).collect::<String>(),
        6 => format!("$ {} $", (0..n).map(|i| format!("a_{} + b^{}", i, i)).collect::<Vec<_>>().join(" \\\n  ")),
        7 => (0..n).map(|i| format!("- item {}\n", i)).collect::<String>(),
        8 => format!("#table(columns: 3, {})", (0..n).map(|i| format!("[c{}]", i)).collect::<Vec<_>>().join(", ")),
        _ => format!("#let x = a{}", ".b".repeat(n)) + "(1)",
    }
}

pub fn all_gen_pools() -> Vec<Box<dyn Pool>> {
    let mk = |name: &str, f: fn(u64) -> Option<String>| -> Box<dyn Pool> {
        Box::new(GenPool { name: name.into(), n: GEN_N, f: Box::new(f) })
    };
    vec![
        mk("G-MARKUP", gen_markup),
        mk("G-MATH", gen_math),
        mk("G-IMPORT", gen_import),
        mk("G-TABLE", gen_table),
        mk("G-NEST", gen_nest),
        mk("G-CODE", gen_code),
        mk("G-BODY", gen_body),
    ]
}
