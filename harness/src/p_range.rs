//! C13 — range formatting is safe to splice.

use serde_json::json;
use typst_syntax::{ast, LinkedNode, Source, SyntaxKind as K};
use typstyle_core::Typstyle;

use crate::engine::{Acc, Case, Violation};
use crate::fmtx::{self, Cfg};
use crate::nf;
use crate::tree;
use crate::util::{self, Rng};

fn is_target(n: &LinkedNode) -> bool {
    n.kind() == K::Markup || n.get().cast::<ast::Expr>().is_some() || n.get().cast::<ast::Pattern>().is_some()
}

/// Independent reference: the deepest Markup/Expr/Pattern node covering the range (first covering child wins).
fn reference_cover<'a>(node: LinkedNode<'a>, a: usize, b: usize) -> Option<LinkedNode<'a>> {
    for child in node.children() {
        let r = child.range();
        if r.start <= a && r.end >= b {
            if let Some(hit) = reference_cover(child, a, b) {
                return Some(hit);
            }
        }
    }
    let r = node.range();
    // units since the fix commits in partial.rs: the root Markup, and expressions/patterns other than the callee of a call
    let unit = if node.kind() == K::Markup {
        node.parent().is_none()
    } else {
        is_target(&node)
            && !(node.index() == 0 && node.parent().map(|p| p.kind() == K::FuncCall).unwrap_or(false))
            && !matches!(node.kind(), K::Space | K::Parbreak)
    };
    if r.start <= a && r.end >= b && unit {
        Some(node)
    } else {
        None
    }
}

fn node_ranges(src: &Source) -> std::collections::HashMap<(usize, usize), bool> {
    // range -> exists a non-erroneous target node with exactly this range
    let mut m = std::collections::HashMap::new();
    fn rec(n: LinkedNode, m: &mut std::collections::HashMap<(usize, usize), bool>) {
        if is_target(&n) {
            let r = n.range();
            let e = m.entry((r.start, r.end)).or_insert(false);
            if !n.erroneous() {
                *e = true;
            }
        }
        for c in n.children() {
            rec(c, m);
        }
    }
    rec(LinkedNode::new(src.root()), &mut m);
    m
}

fn trim(text: &str, a: usize, b: usize) -> (usize, usize) {
    let b = b.min(text.len());
    let a = a.min(b);
    let s = &text[a..b];
    let e = a + s.trim_end().len();
    let st = e - text[a..e].trim_start().len();
    (st, e)
}

pub struct RangeCtx {
    pub src: Source,
    pub ok: bool,
    pub nf: Vec<String>,
    pub ranges: std::collections::HashMap<(usize, usize), bool>,
}

impl RangeCtx {
    pub fn new(text: &str) -> RangeCtx {
        let src = Source::detached(text);
        let ok = !src.root().erroneous();
        let nfv = if ok { nf::nf(src.root(), nf::NfOpts { sort_imports: false }) } else { vec![] };
        let ranges = node_ranges(&src);
        RangeCtx { src, ok, nf: nfv, ranges }
    }
}

/// One range request. Returns Some(detail) on violation.
pub fn check_range(cx: &RangeCtx, a: usize, b: usize, cfg: Cfg, acc: &mut Acc) -> Option<String> {
    let text = cx.src.text();
    acc.evaluations += 1;
    let res = fmtx::guarded(|| Typstyle::new(cfg.to_config()).format_source_range(&cx.src, a..b));
    let res = match res {
        Ok(r) => r,
        Err(p) => return Some(format!("panic: {}", p)),
    };
    let (ta, tb) = trim(text, a, b);
    match res {
        Ok((r, t)) => {
            acc.count("ranges_returning_text", 1);
            match cx.ranges.get(&(r.start, r.end)) {
                Some(true) => {}
                Some(false) => return Some(format!("returned range {:?} belongs only to erroneous nodes", r)),
                None => return Some(format!("returned range {:?} is not the range of any markup/expression/pattern node", r)),
            }
            if !(r.start <= ta && r.end >= tb) {
                return Some(format!("returned range {:?} does not cover the trimmed request {}..{}", r, ta, tb));
            }
            if cx.ok {
                let spliced = format!("{}{}{}", &text[..r.start], t, &text[r.end..]);
                let p2 = typst_syntax::parse(&spliced);
                if p2.erroneous() {
                    return Some(format!("splicing the returned text into {:?} yields a source with syntax errors: {:?}", r, util::clip(&spliced, 120)));
                }
                let n2 = nf::nf(&p2, nf::NfOpts { sort_imports: false });
                acc.count("splices_compared", 1);
                if let Some((i, x, y)) = nf::first_diff(&cx.nf, &n2) {
                    return Some(format!("spliced source is not equivalent to the original: token {}: […{}…] vs […{}…]", i, x, y));
                }
            }
            None
        }
        Err(_) => {
            acc.count("ranges_refused", 1);
            // justified iff the reference covering node is absent or erroneous
            let bb = tb.min(text.len());
            match reference_cover(LinkedNode::new(cx.src.root()), ta, bb) {
                None => None,
                Some(n) if n.erroneous() => None,
                Some(n) => Some(format!(
                    "refused although the covering node {:?} {:?} has no syntax errors",
                    n.kind(),
                    n.range()
                )),
            }
        }
    }
}

fn boundaries(text: &str) -> Vec<usize> {
    let mut v: Vec<usize> = text.char_indices().map(|(i, _)| i).collect();
    v.push(text.len());
    v
}

pub fn run_case(case: &Case, exhaustive_limit: usize, sampled: usize, cfgs: &[Cfg], _rng: &mut Rng, acc: &mut Acc) {
    let text = &case.text;
    let cx = RangeCtx::new(text);
    let xh = util::hash64(text);
    acc.distinct_inputs.insert(xh);
    if !cx.ok {
        acc.count("erroneous_sources", 1);
    }
    let bs = boundaries(text);
    let mut pairs: Vec<(usize, usize)> = vec![];
    if text.len() <= exhaustive_limit {
        for (i, &a) in bs.iter().enumerate() {
            for &b in &bs[i..] {
                pairs.push((a, b));
            }
            for extra in 1..=3 {
                pairs.push((a, text.len() + extra));
            }
        }
        acc.count("sources_with_all_pairs", 1);
    } else {
        pairs.push((0, text.len()));
        pairs.push((0, 0));
        pairs.push((text.len(), text.len()));
        pairs.push((0, text.len() + 2));
        // the sampled requests are a function of the text alone (quick takes a prefix of what the full sweep takes), so that
        // VERIF_SEED selects which sources are visited, never which of their ranges: the pool stays closed
        let mut text_rng = Rng::new(util::hash64(text) ^ 0x5241_4e47);
        let rng = &mut text_rng;
        for _ in 0..sampled {
            let i = rng.below(bs.len());
            let span = 1 + rng.below(400);
            let j = i + rng.below((bs.len() - i).min(span));
            pairs.push((bs[i], bs[j.min(bs.len() - 1)]));
            if rng.chance(1, 20) {
                pairs.push((bs[i], text.len() + 1 + rng.below(3)));
            }
        }
    }
    let mut any_text = false;
    for &cfg in cfgs {
        for &(a, b) in &pairs {
            let before = acc.counters.get("ranges_returning_text").copied().unwrap_or(0);
            match check_range(&cx, a, b, cfg, acc) {
                None => {
                    acc.held += 1;
                    if acc.counters.get("ranges_returning_text").copied().unwrap_or(0) > before {
                        any_text = true;
                    }
                }
                Some(detail) => {
                    acc.violations.push(Violation {
                        property: "C13".into(),
                        input: text.clone(),
                        cfg: Some(cfg),
                        origin: case.origin.clone(),
                        oracle: "range-format".into(),
                        detail,
                        extra: json!({"start": a, "end": b}),
                    });
                }
            }
        }
    }
    if any_text {
        acc.nontrivial.insert(xh);
        if text.len() < 80 && acc.samples.len() < 3 {
            let (a, b) = pairs[pairs.len() / 2];
            let r = fmtx::guarded(|| Typstyle::new(cfgs[0].to_config()).format_source_range(&cx.src, a..b));
            acc.sample(json!({"source": text, "request": [a, b], "result": format!("{:?}", r), "origin": case.origin}));
        }
    }
}

pub fn violated(input: &str, cfg: Cfg, extra: &serde_json::Value) -> Option<bool> {
    let a = extra["start"].as_u64()? as usize;
    let b = extra["end"].as_u64()? as usize;
    if !input.is_char_boundary(a.min(input.len())) || !input.is_char_boundary(b.min(input.len())) || a > b {
        return None;
    }
    let cx = RangeCtx::new(input);
    let mut acc = Acc::new();
    Some(check_range(&cx, a, b, cfg, &mut acc).is_some())
}


// ------------------------------------------------------------------------------------------------
// C10 through range formatting: literals that span lines (strings, raw text, nodes kept verbatim after `@typstyle off`) sit
// in the printed text as one token; an entry point that re-indents the *text* it gets back touches their content.

/// Does this source have a literal token (or a verbatim region) that contains a line break?
pub fn has_multiline_literal(root: &typst_syntax::SyntaxNode) -> bool {
    crate::tree::leaves(root).iter().any(|l| {
        let k = l.kind();
        (matches!(k, typst_syntax::SyntaxKind::Str | typst_syntax::SyntaxKind::Text | typst_syntax::SyntaxKind::RawTrimmed) && l.node.text().contains(|c: char| typst_syntax::is_newline(c)))
            || (crate::tree::is_comment(k) && l.node.text().contains("@typstyle off"))
    }) || {
        let mut raw_ml = false;
        crate::tree::walk(root, &mut |n, _, _| {
            if n.kind() == typst_syntax::SyntaxKind::Raw && n.clone().into_text().contains('\n') {
                raw_ml = true;
            }
        });
        raw_ml
    }
}

/// For every leaf of the source: request the leaf's range, splice what comes back, compare the literal sequences (as C10 does
/// for whole-document formatting). Returns the first difference.
pub fn range_literal_check(text: &str, cfg: Cfg, acc: &mut Acc) -> Option<(String, serde_json::Value)> {
    let src = Source::detached(text);
    if src.root().erroneous() {
        return None;
    }
    let want = crate::streams::literal_stream(src.root());
    let mut seen = std::collections::HashSet::new();
    for l in crate::tree::leaves(src.root()) {
        let (a, b) = (l.start, l.end());
        let res = fmtx::guarded(|| Typstyle::new(cfg.to_config()).format_source_range(&src, a..b));
        acc.evaluations += 1;
        let Ok(Ok((r, t))) = res else { continue };
        if !seen.insert((r.start, r.end)) {
            acc.held += 1;
            continue;
        }
        let spliced = format!("{}{}{}", &text[..r.start], t, &text[r.end..]);
        let p2 = typst_syntax::parse(&spliced);
        if p2.erroneous() {
            // C13's business
            acc.inconclusive("splice-has-syntax-errors(C13)");
            continue;
        }
        acc.count("range_splices_compared", 1);
        let got = crate::streams::literal_stream(&p2);
        if got != want {
            let i = want.iter().zip(got.iter()).position(|(x, y)| x != y).unwrap_or(want.len().min(got.len()));
            return Some((
                format!(
                    "range {}..{} (returned {:?}): literal sequences differ at {}: input […{}…] spliced […{}…]",
                    a,
                    b,
                    r,
                    i,
                    util::clip(want.get(i).map(|s| s.as_str()).unwrap_or("<end>"), 80),
                    util::clip(got.get(i).map(|s| s.as_str()).unwrap_or("<end>"), 80)
                ),
                serde_json::json!({"start": a, "end": b}),
            ));
        }
        acc.held += 1;
    }
    None
}

pub fn range_literal_case(case: &Case, cfgs: &[Cfg], acc: &mut Acc) {
    let Some(root) = crate::tree::parse_ok(&case.text) else { return };
    if !has_multiline_literal(&root) {
        acc.count("range_literal_sources_without_multiline_literal", 1);
        return;
    }
    acc.count("range_literal_sources", 1);
    acc.distinct_inputs.insert(util::hash64(&case.text));
    for &cfg in cfgs {
        if let Some((detail, extra)) = range_literal_check(&case.text, cfg, acc) {
            acc.violations.push(Violation {
                property: "C10".into(),
                input: case.text.clone(),
                cfg: Some(cfg),
                origin: case.origin.clone(),
                oracle: "range-literal-stream".into(),
                detail,
                extra,
            });
        } else {
            acc.nontrivial.insert(util::hash64_parts(&["range-literal", &case.text]));
        }
    }
}

pub fn range_literal_violated(input: &str, cfg: Cfg) -> Option<bool> {
    let mut acc = Acc::new();
    if crate::tree::parse_ok(input).is_none() {
        return None;
    }
    Some(range_literal_check(input, cfg, &mut acc).is_some())
}
