//! Property registry: workloads, rechecks, replay.

use serde_json::{json, Value};

use crate::engine::{Acc, RunMeta, Violation};
use crate::fmtx::Cfg;
use crate::pools;
use crate::report;
use crate::treeprops::{self, TreeCheck};
use crate::util;
use crate::workload::{self, CfgRule, Part, Std, Tier};

/// Re-evaluate the property a violation belongs to on a modified input (same config / extra data).
pub fn violated(v: &Violation, new_input: &str) -> Option<bool> {
    if v.oracle == "range-literal-stream" {
        return crate::p_range::range_literal_violated(new_input, v.cfg?);
    }
    if v.oracle == "front-end-hygiene" {
        return crate::p_cli::hygiene_violated(new_input);
    }
    match v.property.as_str() {
        "C01" | "C03" | "C04" | "C06" | "C08" | "C09" | "C10" | "C11" => {
            treeprops::violated(&v.property, new_input, v.cfg?)
        }
        _ => crate::special::violated(v, new_input),
    }
}

pub fn tree_rule(prop: &str) -> &'static str {
    match prop {
        "C01" => "inputs = closed pools (corpus, generators, mutators: comment/whitespace/EOL/paren/splice/unicode) × width sweep × tab sizes × reorder; one evaluation = one format call whose output was re-parsed and whose layout-erasing normal form N was compared with the input's; distinct = input hash; non-trivial = well-formed input for which some output differs from the input text (the formatter actually rewrote something)",
        "C03" => "same pools as C01; one evaluation = format, then format the output again with the same config and compare bytes; distinct = input hash; non-trivial = first-pass output differs from the input (so the second pass runs on text the formatter produced itself)",
        "C04" => "same pools as C01 with the width sweep always containing 0,1,2; one evaluation = format + re-parse of the output; distinct = input hash; non-trivial = output differs from input",
        "C06" => "systematic comment injection (every token gap × 8 comment shapes, unique ids) into snippets/adversarial/small fixtures plus the corpus' own comments; evaluation = format + comparison of the interleaved word/comment streams of both trees; distinct = input hash; non-trivial = input contains ≥1 comment and the output text differs from the input",
        "C08" => "markup-heavy corpus + generated prose lines + EOL-blank mutants at widths far below the line lengths; evaluation = format + line-structure comparison of every paired Markup node; distinct = input hash; non-trivial = input has ≥1 prose line and the output text differs from the input",
        "C09" => "math corpus + math generator + whitespace mutants; evaluation = format + comparison of gap classes (none/space/newline) of every paired Math/MathDelimited node and of Equation block flags; distinct = input hash; non-trivial = input has ≥1 math node and output differs from input",
        "C10" => "corpus + splice/unicode/EOL-blank mutants; evaluation = format + comparison of the in-order literal sequences (Str, numbers, identifiers, labels, refs, links, escapes, Raw as (block, lang, lines, fence)); distinct = input hash; non-trivial = input has ≥1 literal and output differs from input",
        "C11" => "corpus + degenerate documents + EOL/EOL-blank mutants; evaluation = format + scan of every LF-delimited output line; distinct = input hash; non-trivial = the input itself violates the hygiene rule (no final LF, or some line ends with a blank)",
        _ => "",
    }
}

/// Parts (pool, quick sample, thorough sample, cfg rule) for the tree properties.
pub fn tree_parts(prop: &str, std: &Std) -> Vec<Part> {
    let sweep = workload::sweep_default();
    let sweep2 = CfgRule::Grid { tabs: vec![2, 4], reorder: vec![false] };
    let sweep_r = CfgRule::Sweep { tabs: vec![2], reorder: vec![true] };
    let sb = std.small_bases.clone();
    let mut parts = vec![];
    let base = || std.base_list();
    let gens = |parts: &mut Vec<Part>, q: usize, t: usize, rule: &CfgRule| {
        for g in crate::gen::all_gen_pools() {
            // G-BODY enumerates (context × inner construct) systematically: take enough to cover every combination
            let q = if g.name() == "G-BODY" { q.max(800) * 2 } else { q };
            parts.push(Part { pool: g, quick: q, thorough: t, cfg: rule.clone() });
        }
    };
    match prop {
        "C01" | "C03" | "C04" => {
            parts.push(Part::new(base(), usize::MAX, usize::MAX, sweep.clone()));
            parts.push(Part::new(base(), 300, usize::MAX, sweep_r.clone()));
            parts.push(Part::new(pools::comment_pool(sb.clone()), 6000, 120_000, sweep2.clone()));
            parts.push(Part::new(pools::ws_pool(sb.clone()), 4000, 80_000, sweep2.clone()));
            parts.push(Part::new(pools::paren_pool(sb.clone()), 3000, 33_196, sweep2.clone()));
            parts.push(Part::new(pools::pattern_paren_pool(sb.clone()), 2000, usize::MAX, sweep2.clone()));
            parts.push(Part::new(pools::splice_pool(sb.clone(), std.frags.clone()), 3000, 72_678, sweep2.clone()));
            parts.push(Part::new(pools::eol_pool(sb.clone()), 1500, 18_391, sweep2.clone()));
            parts.push(Part::new(pools::eolblank_pool(sb.clone()), 1500, 31_770, sweep2.clone()));
            parts.push(Part::new(pools::uni_pool(sb.clone()), 1500, 21_240, sweep2.clone()));
            parts.push(Part::new(crate::p_off::off2_pool(sb.clone()), 1500, 40_000, sweep2.clone()));
            parts.push(Part::new(crate::p_off::off_pool(sb.clone()), 1500, 40_000, sweep2.clone()));
            gens(&mut parts, 600, 6000, &sweep2);
        }
        "C06" => {
            parts.push(Part::new(base(), usize::MAX, usize::MAX, sweep2.clone()));
            parts.push(Part::new(pools::comment_pool(sb.clone()), 14_000, usize::MAX, sweep2.clone()));
            parts.push(Part::new(crate::p_off::off2_pool(sb.clone()), 6000, usize::MAX, sweep2.clone()));
            parts.push(Part::new(pools::eol_pool(sb.clone()), 1500, 18_391, sweep2.clone()));
            gens(&mut parts, 300, 3000, &sweep2);
        }
        "C08" => {
            parts.push(Part::new(base(), usize::MAX, usize::MAX, sweep.clone()));
            parts.push(Part::new(pools::eolblank_pool(sb.clone()), 3000, 31_770, sweep2.clone()));
            parts.push(Part::new(pools::eol_pool(sb.clone()), usize::MAX, usize::MAX, sweep2.clone()));
            parts.push(Part::new(pools::ws_pool(sb.clone()), 3000, 80_000, sweep2.clone()));
            parts.push(Part::new(pools::splice_pool(sb.clone(), std.frags.clone()), 3000, 72_678, sweep2.clone()));
            parts.push(Part::new(pools::comment_pool(sb.clone()), 3000, 60_000, sweep2.clone()));
            parts.push(Part::new(pools::uni_pool(sb.clone()), 2000, 21_240, sweep2.clone()));
            parts.push(Part::new(pools::blank_pool(sb.clone()), 4000, usize::MAX, sweep2.clone()));
            gens(&mut parts, 1200, 12_000, &sweep2);
        }
        "C09" => {
            parts.push(Part::new(base(), usize::MAX, usize::MAX, sweep.clone()));
            parts.push(Part::new(pools::ws_pool(sb.clone()), 8000, usize::MAX, sweep2.clone()));
            parts.push(Part::new(pools::eol_pool(sb.clone()), usize::MAX, usize::MAX, sweep2.clone()));
            parts.push(Part::new(pools::splice_pool(sb.clone(), std.frags.clone()), 3000, 72_678, sweep2.clone()));
            parts.push(Part::new(pools::comment_pool(sb.clone()), 3000, 60_000, sweep2.clone()));
            gens(&mut parts, 1200, 12_000, &sweep2);
        }
        "C10" => {
            parts.push(Part::new(base(), usize::MAX, usize::MAX, sweep.clone()));
            parts.push(Part::new(pools::eolblank_pool(sb.clone()), 3000, 31_770, sweep2.clone()));
            parts.push(Part::new(pools::eol_pool(sb.clone()), usize::MAX, usize::MAX, sweep2.clone()));
            parts.push(Part::new(pools::uni_pool(sb.clone()), 3000, 21_240, sweep2.clone()));
            parts.push(Part::new(pools::splice_pool(sb.clone(), std.frags.clone()), 4000, 72_678, sweep2.clone()));
            parts.push(Part::new(pools::paren_pool(sb.clone()), 2000, 33_196, sweep2.clone()));
            gens(&mut parts, 600, 6000, &sweep2);
        }
        "C11" => {
            parts.push(Part::new(base(), usize::MAX, usize::MAX, sweep.clone()));
            parts.push(Part::new(pools::eolblank_pool(sb.clone()), 6000, usize::MAX, sweep2.clone()));
            parts.push(Part::new(pools::eol_pool(sb.clone()), 3000, usize::MAX, sweep2.clone()));
            parts.push(Part::new(pools::uni_pool(sb.clone()), 2000, 21_240, sweep2.clone()));
            parts.push(Part::new(pools::comment_pool(sb.clone()), 4000, 60_000, sweep2.clone()));
            parts.push(Part::new(pools::ws_pool(sb.clone()), 3000, 60_000, sweep2.clone()));
            gens(&mut parts, 600, 6000, &sweep2);
        }
        _ => panic!("not a tree property: {}", prop),
    }
    parts
}

pub fn run_tree(prop: &str, tier: Tier) -> (RunMeta, Acc) {
    let std = Std::load();
    let (oracle, per_output) = treeprops::oracle_for(prop).expect("tree property");
    let chk = TreeCheck { property: prop, per_output, oracle };
    let parts = tree_parts(prop, &std);
    let mut meta = RunMeta::new(prop, tier.name(), "exploration", tree_rule(prop));
    let (mut acc, pools_meta) = workload::run_tree_workload(&chk, &parts, tier, meta.seed);
    meta.pools = pools_meta;
    meta.assumptions = vec![
        "typst-syntax 0.13.1's parser is the reference for 'parses' and for tree shape".into(),
        "the normal form / stream abstractions in harness/src/{nf,streams}.rs erase exactly what DESIGN.md §6 and §8 call layout".into(),
        "closed pools: every registered input is a deterministic function of committed files and VERIF_SEED".into(),
    ];
    if prop == "C10" {
        // literals under the other formatting entry point: range formatting of every leaf's range, spliced back
        let cfgs = [Cfg::new(80, 2, false), Cfg::new(0, 4, false), Cfg::new(30, 3, false)];
        let sb = std.small_bases.clone();
        let parts = vec![
            Part::new(std.base_list(), usize::MAX, usize::MAX, CfgRule::Fixed(vec![])),
            Part::new(workload_list("corpus(range-shapes)", crate::corpus::range_shapes()), usize::MAX, usize::MAX, CfgRule::Fixed(vec![])),
            Part::new(pools::eolblank_pool(sb.clone()), 3000, usize::MAX, CfgRule::Fixed(vec![])),
            Part::new(pools::ws_pool(sb.clone()), 3000, 60_000, CfgRule::Fixed(vec![])),
            Part::new(crate::p_off::off_pool(sb.clone()), 3000, 40_000, CfgRule::Fixed(vec![])),
        ];
        let (a2, pm) = workload::run_parts(&parts, tier, meta.seed ^ 0x10, |_, case, _, acc| {
            if case.text.len() <= 20_000 {
                crate::p_range::range_literal_case(case, &cfgs, acc)
            }
        });
        for mut m in pm {
            m["pool"] = json!(format!("range-literals: {}", m["pool"].as_str().unwrap_or("")));
            meta.pools.push(m);
        }
        acc.merge(a2);
    }
    if prop == "C11" {
        // the same rule for what the command line front-end writes and prints when several documents go through one process
        crate::p_cli::run_hygiene(tier, meta.seed, &mut acc);
    }
    // always-on: reproducers of fixed findings must hold
    crate::special::run_fixed_repros(prop, &mut acc);
    (meta, acc)
}

fn workload_list(name: &str, cases: Vec<crate::engine::Case>) -> pools::ListPool {
    pools::ListPool { name: name.into(), cases }
}

pub fn check(prop: &str, tier: Tier) -> i32 {
    match prop {
        "C01" | "C03" | "C04" | "C06" | "C08" | "C09" | "C10" | "C11" => {
            let (meta, acc) = run_tree(prop, tier);
            let floor = if tier == Tier::Quick { 10_000 } else { 100_000 };
            report::finish(meta, acc, floor)
        }
        _ => crate::special::check(prop, tier),
    }
}

/// Re-execute one replay file and print what the oracle sees.
pub fn replay(path: &str) -> i32 {
    let Ok(s) = std::fs::read_to_string(path) else {
        eprintln!("cannot read {}", path);
        return 2;
    };
    let v: Value = serde_json::from_str(&s).unwrap_or(Value::Null);
    let viol = violation_from_json(&v);
    println!("property={} oracle={} origin={}", viol.property, viol.oracle, viol.origin);
    println!("recorded detail: {}", viol.detail);
    if let Some(cfg) = viol.cfg {
        println!("cfg: {}", cfg);
        println!("---- input ----\n{}", viol.input);
        match crate::fmtx::fmt(&viol.input, cfg) {
            crate::fmtx::FmtOut::Ok(y) => {
                println!("---- output ----\n{}", y);
                if let crate::fmtx::FmtOut::Ok(y2) = crate::fmtx::fmt(&y, cfg) {
                    if y2 != y {
                        println!("---- second pass ----\n{}", y2);
                    }
                }
            }
            o => println!("---- outcome: {:?}", o),
        }
    }
    match violated(&viol, &viol.input.clone()) {
        Some(true) => {
            println!("REPLAY: still violated");
            1
        }
        Some(false) => {
            println!("REPLAY: holds now");
            0
        }
        None => {
            println!("REPLAY: inconclusive");
            2
        }
    }
}

pub fn violation_from_json(v: &Value) -> Violation {
    Violation {
        property: v["property"].as_str().unwrap_or("").to_string(),
        input: v["input"].as_str().unwrap_or("").to_string(),
        cfg: if v["cfg"].is_object() { Some(Cfg::from_json(&v["cfg"])) } else { None },
        origin: v["origin"].as_str().unwrap_or("").to_string(),
        oracle: v["oracle"].as_str().unwrap_or("").to_string(),
        detail: v["detail"].as_str().unwrap_or("").to_string(),
        extra: v["extra"].clone(),
    }
}

/// Construction-time triage: run a property at a tier and explain every unclassified violation.
pub fn triage(prop: &str, tier: Tier) {
    let (_meta, acc) = match prop {
        "C01" | "C03" | "C04" | "C06" | "C08" | "C09" | "C10" | "C11" => run_tree(prop, tier),
        _ => crate::special::run(prop, tier),
    };
    // the generated per-property findings (K-… comment keys, X-… listed inputs) are rebuilt from this sweep: ignore the old ones
    let db: Vec<_> = crate::findings::load().into_iter().filter(|f| !f.id.starts_with("K-") && !f.id.starts_with("X-")).collect();
    let mut keys: std::collections::BTreeMap<String, (u64, String)> = Default::default();
    let mut key_repro: std::collections::BTreeMap<String, Value> = Default::default();
    let mut repairs: std::collections::BTreeMap<String, (u64, String)> = Default::default();
    let mut leftovers: Vec<Value> = vec![];
    let mut seen = std::collections::HashSet::new();
    let mut known = 0u64;
    use rayon::prelude::*;
    // every violating execution is classified on its own — (input, oracle, request, configuration) — exactly as a check does
    // with whatever subset of the configurations its seed selects: an input that a position key explains at one width may need
    // to be listed for another
    let vs: Vec<&Violation> = acc
        .violations
        .iter()
        .filter(|v| seen.insert(util::hash64_parts(&[&v.input, &v.oracle, &v.extra.to_string(), &v.cfg.map(|c| c.to_string()).unwrap_or_default()])))
        .collect();
    eprintln!("triage: {} evaluations, {} violations ({} distinct inputs)", acc.evaluations, acc.violations.len(), vs.len());
    let results: Vec<(usize, Option<String>, Vec<String>, Vec<String>)> = vs
        .par_iter()
        .enumerate()
        .map(|(i, v)| {
            if let Some(id) = crate::findings::classify(&db, v) {
                return (i, Some(id), vec![], vec![]);
            }
            let mut reps = vec![];
            for name in ["eol_blank_in_literal", "cr_in_literal", "nonascii_eol_blank", "paren_literal_then_text", "comment_only_content", "explode_multi_stmt_blocks"] {
                if let Some(r) = crate::classifiers::repair(name, &v.input) {
                    if r != v.input && crate::classifiers::recheck(v, &r) == Some(false) {
                        reps.push(name.to_string());
                    }
                }
            }
            let ks = if reps.is_empty() { crate::classifiers::culprit_comment_keys(v) } else { vec![] };
            (i, None, reps, ks)
        })
        .collect();
    for (i, id, reps, ks) in results {
        let v = vs[i];
        let eg = format!("{} [{}]", util::clip(&v.input.replace('\n', "⏎"), 100), v.cfg.map(|c| c.to_string()).unwrap_or_default());
        if id.is_some() {
            known += 1;
            continue;
        }
        if let Some(r) = reps.first() {
            let e = repairs.entry(r.clone()).or_insert((0, eg.clone()));
            e.0 += 1;
            continue;
        }
        if !ks.is_empty() {
            for k in ks {
                let e = keys.entry(k.clone()).or_insert((0, eg.clone()));
                e.0 += 1;
                // keep the smallest full example per key as a reproducer
                let better = key_repro.get(&k).map(|r| r["input"].as_str().map(|s| s.len()).unwrap_or(0) > v.input.len()).unwrap_or(true);
                if better {
                    key_repro.insert(k, json!({"property": v.property, "oracle": v.oracle, "input": v.input, "cfg": v.cfg.map(|c| c.json()), "extra": v.extra, "origin": v.origin, "detail": ""}));
                }
            }
            continue;
        }
        leftovers.push(json!({"sha": util::sha_hex(&v.input), "input": v.input, "cfg": v.cfg.map(|c| c.json()), "detail": util::clip(&v.detail, 300), "origin": v.origin, "oracle": v.oracle, "extra": v.extra, "property": v.property, "_i": i}));
    }
    // second pass: inputs with several comments at culprit positions (each sufficient on its own) are explained by the
    // key set as a whole — the same counterfactual the comment_key classifier applies at check time
    let all_keys: Vec<String> = keys.keys().cloned().collect();
    let key_refs: Vec<&str> = all_keys.iter().map(|s| s.as_str()).collect();
    let before = leftovers.len();
    let explained: Vec<bool> = leftovers
        .par_iter()
        .map(|l| {
            let Some(v) = l["_i"].as_u64().and_then(|i| vs.get(i as usize)) else { return false };
            match crate::classifiers::remove_comments_with_keys(&v.input, &key_refs, false) {
                Some(x) if x != v.input && crate::classifiers::recheck(v, &x) == Some(false) => {
                    match crate::classifiers::remove_comments_with_keys(&v.input, &key_refs, true) {
                        Some(c) if c == v.input => true,
                        Some(c) => crate::classifiers::recheck(v, &c) == Some(true),
                        None => false,
                    }
                }
                _ => false,
            }
        })
        .collect();
    let mut it = explained.iter();
    leftovers.retain(|_| !*it.next().unwrap());
    eprintln!("triage: {} of {} leftovers explained by removing all comments at known positions", before - leftovers.len(), before);
    // one entry per (input, oracle, kind of failure) is enough for the list
    let mut seen_l = std::collections::HashSet::new();
    leftovers.retain(|l| {
        let first = l["detail"].as_str().unwrap_or("").split_whitespace().next().unwrap_or("").to_string();
        seen_l.insert((l["sha"].as_str().unwrap_or("").to_string(), l["oracle"].as_str().unwrap_or("").to_string(), first))
    });
    let out = json!({
        "property": prop,
        "already_known": known,
        "comment_keys": keys.iter().map(|(k, v)| json!({"key": k, "n": v.0, "eg": v.1, "repro": key_repro.get(k)})).collect::<Vec<_>>(),
        "repairs": repairs.iter().map(|(k, v)| json!({"repair": k, "n": v.0, "eg": v.1})).collect::<Vec<_>>(),
        "leftovers": leftovers,
    });
    println!("{}", serde_json::to_string_pretty(&out).unwrap());
}
