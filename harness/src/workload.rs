//! Workload assembly: pools × selection × configuration sweep.

use std::sync::Arc;

use serde_json::{json, Value};

use crate::corpus;
use crate::engine::{par_cases, Acc, Case};
use crate::fmtx::{self, Cfg, FmtOut};
use crate::mutate;
use crate::pools::{self, Base, ListPool, Pool};
use crate::treeprops::{self, TreeCheck};
use crate::util::{self, Rng};

#[derive(Clone, Copy, PartialEq, Eq, Debug)]
pub enum Tier {
    Quick,
    Thorough,
    /// every item of every pool (pre-sweep)
    Full,
}

impl Tier {
    pub fn parse(s: &str) -> Tier {
        match s {
            "quick" => Tier::Quick,
            "thorough" => Tier::Thorough,
            "full" => Tier::Full,
            _ => panic!("tier must be quick|thorough|full"),
        }
    }
    pub fn name(self) -> &'static str {
        match self {
            Tier::Quick => "quick",
            // evidence schema knows only quick/thorough
            Tier::Thorough | Tier::Full => "thorough",
        }
    }
}

#[derive(Clone)]
pub enum CfgRule {
    /// width sweep (quick: fixed+seeded widths; thorough: all widths) × tabs × reorder
    Sweep { tabs: Vec<usize>, reorder: Vec<bool> },
    Fixed(Vec<Cfg>),
    /// fixed width grid × tabs × reorder (quick: core widths + seed-chosen grid widths; thorough/full: whole grid)
    Grid { tabs: Vec<usize>, reorder: Vec<bool> },
}

pub const WIDTH_GRID: [usize; 26] =
    [0, 1, 2, 3, 5, 8, 10, 13, 16, 20, 25, 30, 35, 40, 45, 50, 55, 60, 70, 80, 90, 100, 110, 120, 160, fmtx::W_INF];
pub const WIDTH_CORE: [usize; 8] = [0, 1, 2, 20, 40, 80, 120, fmtx::W_INF];

pub struct Part {
    pub pool: Box<dyn Pool>,
    pub quick: usize,
    pub thorough: usize,
    pub cfg: CfgRule,
}

impl Part {
    pub fn new(pool: impl Pool + 'static, quick: usize, thorough: usize, cfg: CfgRule) -> Part {
        Part { pool: Box::new(pool), quick, thorough, cfg }
    }
}

pub fn cfgs_for(rule: &CfgRule, text: &str, tier: Tier, rng: &mut Rng) -> Vec<Cfg> {
    match rule {
        CfgRule::Fixed(v) => v.clone(),
        CfgRule::Grid { tabs, reorder } => {
            let mut widths: Vec<usize> = if tier == Tier::Quick {
                let mut w = WIDTH_CORE.to_vec();
                for _ in 0..3 {
                    w.push(WIDTH_GRID[rng.below(WIDTH_GRID.len())]);
                }
                w
            } else {
                WIDTH_GRID.to_vec()
            };
            widths.sort_unstable();
            widths.dedup();
            let mut out = vec![];
            for &r in reorder {
                for &t in tabs {
                    for &w in &widths {
                        out.push(Cfg::new(w, t, r));
                    }
                }
            }
            out
        }
        CfgRule::Sweep { tabs, reorder } => {
            let flat = match fmtx::fmt(text, Cfg::w(fmtx::W_INF)) {
                FmtOut::Ok(y) => fmtx::longest_line(&y),
                _ => 120,
            };
            let widths = if tier == Tier::Quick || (tier == Tier::Thorough && text.len() > 12_000) {
                fmtx::quick_widths(rng, flat)
            } else {
                fmtx::all_widths(flat)
            };
            let mut out = vec![];
            for &r in reorder {
                for (ti, &t) in tabs.iter().enumerate() {
                    // the full width sweep runs at the first tab size; other tab sizes get the quick widths
                    if ti == 0 || tier == Tier::Quick || tier == Tier::Full {
                        for &w in &widths {
                            out.push(Cfg::new(w, t, r));
                        }
                    } else {
                        for w in fmtx::quick_widths(rng, flat) {
                            out.push(Cfg::new(w, t, r));
                        }
                    }
                }
            }
            out
        }
    }
}

/// Run `f` on every selected item of every part. Returns the accumulator and pool metadata for evidence.
pub fn run_parts(
    parts: &[Part],
    tier: Tier,
    seed: u64,
    f: impl Fn(&Part, &Case, &mut Rng, &mut Acc) + Sync,
) -> (Acc, Vec<Value>) {
    let mut total = Acc::new();
    let mut meta = vec![];
    for (pi, part) in parts.iter().enumerate() {
        let mut rng = Rng::new(seed ^ util::hash64(&part.pool.name()) ^ (pi as u64) << 32);
        let want = match tier {
            Tier::Quick => part.quick,
            Tier::Thorough => part.thorough,
            Tier::Full => usize::MAX,
        };
        let idx = pools::select(part.pool.len(), want, &mut rng);
        let items: Vec<(usize, u64)> = idx.iter().map(|&i| (i, rng.next())).collect();
        let acc = par_cases(&items, |&(i, s), acc| {
            let Some(case) = part.pool.get(i) else {
                acc.count("rejected_by_admission", 1);
                return;
            };
            if !origin_selected(&case.origin) {
                return;
            }
            let mut r = Rng::new(s);
            f(part, &case, &mut r, acc);
        });
        meta.push(json!({
            "pool": part.pool.name(),
            "pool_size": part.pool.len(),
            "selected": idx.len(),
            "evaluations": acc.evaluations,
            "violations_before_classification": acc.violations.len(),
            "rejected_by_admission": acc.counters.get("rejected_by_admission").copied().unwrap_or(0),
        }));
        total.merge(acc);
    }
    (total, meta)
}

/// Construction-time only (incremental triage, `tools_triage.sh --from`): `TYV_ORIGIN_FROM="adv#950,snippet#730"` restricts a
/// sweep to cases whose base is one of the named corpus lists at or after the given index (entries appended since the last
/// full sweep). Registered checks never set it.
fn origin_selected(origin: &str) -> bool {
    static FILTER: std::sync::OnceLock<Vec<(String, usize)>> = std::sync::OnceLock::new();
    let f = FILTER.get_or_init(|| {
        std::env::var("TYV_ORIGIN_FROM")
            .ok()
            .map(|v| v.split(',').filter_map(|e| e.split_once('#').and_then(|(n, k)| Some((n.to_string(), k.parse().ok()?)))).collect())
            .unwrap_or_default()
    });
    if f.is_empty() {
        return true;
    }
    let base = origin.split('|').next().unwrap_or("");
    let Some((name, idx)) = base.split_once('#') else { return false };
    let Ok(idx) = idx.parse::<usize>() else { return false };
    f.iter().any(|(n, from)| n == name && idx >= *from)
}

/// Run a tree property over the parts.
pub fn run_tree_workload(chk: &TreeCheck, parts: &[Part], tier: Tier, seed: u64) -> (Acc, Vec<Value>) {
    run_parts(parts, tier, seed, |part, case, r, acc| {
        let cfgs = cfgs_for(&part.cfg, &case.text, tier, r);
        treeprops::run_case(chk, case, &cfgs, acc);
    })
}

// ------------------------------------------------------------------------------------------------
// Standard building blocks

pub struct Std {
    pub fixtures: Vec<Case>,
    pub snippets: Vec<Case>,
    pub adversarial: Vec<Case>,
    /// snippets + adversarial + fixtures < 1.5 kB, parsed (bases of the mutation pools)
    pub small_bases: Arc<Vec<Base>>,
    pub snippet_bases: Arc<Vec<Base>>,
    pub frags: Arc<Vec<mutate::Fragment>>,
}

impl Std {
    pub fn load() -> Std {
        let fixtures = corpus::fixtures();
        let snippets = corpus::snippets();
        let adversarial = corpus::adversarial();
        let mut small: Vec<Case> = snippets.clone();
        small.extend(adversarial.clone());
        small.extend(fixtures.iter().filter(|c| c.text.len() < 1500).cloned());
        let mut snip: Vec<Case> = snippets.clone();
        snip.extend(adversarial.clone());
        let srcs: Vec<&str> = fixtures.iter().chain(snippets.iter()).map(|c| c.text.as_str()).collect();
        let frags = Arc::new(mutate::harvest(&srcs));
        Std {
            small_bases: pools::make_bases(small),
            snippet_bases: pools::make_bases(snip),
            fixtures,
            snippets,
            adversarial,
            frags,
        }
    }

    pub fn base_list(&self) -> ListPool {
        let mut cases = self.snippets.clone();
        cases.extend(self.adversarial.clone());
        cases.extend(corpus::repro_open());
        cases.extend(self.fixtures.clone());
        ListPool { name: "corpus(fixtures+snippets+adversarial+open-finding reproducers)".into(), cases }
    }
}

pub fn sweep_default() -> CfgRule {
    CfgRule::Sweep { tabs: vec![2, 4, 1, 3, 8], reorder: vec![false] }
}
