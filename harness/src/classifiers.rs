//! Classifier predicates for known findings (DESIGN.md §5.2).
//!
//! Every classifier has the shape "trigger present in the input AND a counterfactual repair of the input
//! makes the violation disappear under the same configuration". The repair keeps classes tight: a new cause
//! that merely co-occurs with a known trigger survives the repair and is reported as a fresh violation.

use typst_syntax::{SyntaxKind as K, SyntaxNode};

use crate::engine::Violation;
use crate::findings::Finding;
use crate::tree;
use crate::util;

/// Re-evaluate the violated property on a modified input. Some(true) = still violated.
pub fn recheck(v: &Violation, new_input: &str) -> Option<bool> {
    if v.property == "C13" && new_input != v.input {
        // the counterfactual input has different offsets: carry the requested range over through a byte alignment
        let a = v.extra["start"].as_u64()? as usize;
        let b = v.extra["end"].as_u64()? as usize;
        // start: before any text inserted at that place; end: after it
        let lo = map_offsets(&v.input, new_input, &[a], false)?;
        let hi = map_offsets(&v.input, new_input, &[b], true)?;
        let mut v2 = v.clone();
        v2.extra["start"] = serde_json::json!(lo[0]);
        v2.extra["end"] = serde_json::json!(hi[0].max(lo[0]));
        return crate::props::violated(&v2, new_input);
    }
    crate::props::violated(v, new_input)
}

/// Map byte offsets of `old` to offsets of `new` along a longest-common-subsequence alignment of the part that differs.
/// A position inside deleted text maps to the place where the deletion happened. None when the differing part is too large.
pub fn map_offsets(old: &str, new: &str, ps: &[usize], after_insertions: bool) -> Option<Vec<usize>> {
    let (o, n) = (old.as_bytes(), new.as_bytes());
    let mut pre = 0;
    while pre < o.len() && pre < n.len() && o[pre] == n[pre] {
        pre += 1;
    }
    let mut suf = 0;
    while suf < o.len() - pre && suf < n.len() - pre && o[o.len() - 1 - suf] == n[n.len() - 1 - suf] {
        suf += 1;
    }
    let (ho, hn) = (&o[pre..o.len() - suf], &n[pre..n.len() - suf]);
    if ho.len().saturating_mul(hn.len()) > 6_000_000 {
        return None;
    }
    // lcs[i][j] = LCS length of ho[i..], hn[j..]
    let w = hn.len() + 1;
    let mut lcs = vec![0u32; (ho.len() + 1) * w];
    for i in (0..ho.len()).rev() {
        for j in (0..hn.len()).rev() {
            lcs[i * w + j] = if ho[i] == hn[j] { lcs[(i + 1) * w + j + 1] + 1 } else { lcs[(i + 1) * w + j].max(lcs[i * w + j + 1]) };
        }
    }
    // hull_map[i] = new-hull offset that old-hull offset i corresponds to
    let mut hull_map = vec![usize::MAX; ho.len() + 1];
    let (mut i, mut j) = (0, 0);
    while i < ho.len() {
        if after_insertions || hull_map[i] == usize::MAX {
            hull_map[i] = j;
        }
        if j < hn.len() && ho[i] == hn[j] && lcs[i * w + j] == lcs[(i + 1) * w + j + 1] + 1 {
            i += 1;
            j += 1;
        } else if j < hn.len() && lcs[i * w + j] == lcs[i * w + j + 1] {
            j += 1; // inserted byte in new
        } else {
            i += 1; // deleted byte of old
        }
    }
    hull_map[ho.len()] = if after_insertions { hn.len() } else { j };
    let mut out = vec![];
    for &p in ps {
        let q = if p < pre {
            p
        } else if p > o.len() - suf {
            // also covers positions past the end of the text
            p + n.len() - o.len()
        } else {
            pre + hull_map[p - pre]
        };
        out.push(q);
    }
    Some(out)
}

pub fn matches(f: &Finding, v: &Violation) -> bool {
    match f.classifier.as_str() {
        "input_list" => {
            // entries are "<sha of the input>:<kind of failure>": a listed input that starts failing in a different way
            // (e.g. a panic instead of a non-equivalent splice) is reported
            let h = format!("{}:{}", util::sha_hex(&v.input), violation_kind(v));
            f.params["inputs"].as_array().map(|a| a.iter().any(|x| x.as_str() == Some(&h))).unwrap_or(false)
        }
        "comment_key" => {
            let keys: Vec<&str> = f.params["keys"].as_array().map(|a| a.iter().filter_map(|x| x.as_str()).collect()).unwrap_or_default();
            if culprit_comment_keys(v).iter().any(|k| keys.contains(&k.as_str())) {
                return true;
            }
            // several comments at known positions may each be sufficient on their own (three `// n` lines below three
            // term markers): counterfactual with ALL comments at known positions removed
            match remove_comments_with_keys(&v.input, &keys, false) {
                Some(x) if x != v.input && recheck(v, &x) == Some(false) => {
                    // … and it must persist when those comments are replaced by the canonical ones of their shapes
                    match remove_comments_with_keys(&v.input, &keys, true) {
                        Some(c) if c == v.input => true,
                        Some(c) => recheck(v, &c) == Some(true),
                        None => false,
                    }
                }
                _ => false,
            }
        }
        "repair" => {
            let name = f.params["repair"].as_str().unwrap_or("");
            // F14 explains an exit status only when the read failure is the *only* reason for a non-zero status
            if name == "cli_f14" && !(v.oracle == "exit-status" && v.detail.contains("which are the model's only reason for a non-zero status")) {
                return false;
            }
            match repair(name, &v.input) {
                Some(r) if r != v.input => recheck(v, &r) == Some(false),
                _ => false,
            }
        }
        "stack_overflow_depth" => {
            // isolated worker killed by a stack overflow at a nesting depth >= min_depth, while 1/8 of the depth survives
            let min = f.params["min_depth"].as_u64().unwrap_or(4096);
            let d = v.extra["depth"].as_u64().unwrap_or(0);
            if v.oracle != "depth-ladder" || d < min || !(v.detail.contains("signal 6") || v.detail.contains("signal 11")) || !v.detail.contains("overflow") {
                return false;
            }
            let mut ex = v.extra.clone();
            ex["depth"] = serde_json::json!(d / 8);
            crate::p_total::ladder_violated(&ex, v.cfg.unwrap_or(crate::fmtx::Cfg::w(80))) == Some(false)
        }
        "panic_site" => {
            let site = f.params["site"].as_str().unwrap_or("\u{0}");
            v.detail.contains(site)
        }
        _ => false,
    }
}

/// Coarse kind of a failure: oracle + first word of the detail ("panic:", "spliced", "line", "normal", …).
pub fn violation_kind(v: &Violation) -> String {
    let w: String = v.detail.split_whitespace().next().unwrap_or("").chars().filter(|c| c.is_ascii_alphabetic()).collect();
    format!("{}/{}", v.oracle, w)
}

/// `canonicalise` = false: delete the comments at known positions; true: replace them by the canonical comment of their shape.
pub fn remove_comments_with_keys(input: &str, keys: &[&str], canonicalise: bool) -> Option<String> {
    let root = tree::parse_ok(input)?;
    let leaves = tree::leaves(&root);
    // a position is matched by shape|parent|grandparent here (the neighbours differ between the comments of one input:
    // `/ 5:⏎⏎ // 5⏎⏎` has paragraph breaks where `/ 2:⏎ // 2⏎ 222` has text); the recheck decides
    fn prefix3(k: &str) -> String {
        k.split('|').take(3).collect::<Vec<_>>().join("|")
    }
    let known: std::collections::HashSet<String> = keys.iter().map(|k| prefix3(k)).collect();
    let mut cuts: Vec<(usize, usize, String)> = vec![];
    for c in leaves.iter().filter(|l| tree::is_comment(l.kind())) {
        if let Some(k) = comment_key(&root, c.start) {
            if known.contains(&prefix3(&k)) {
                let rep = if canonicalise {
                    canonical_comment(c.node.text(), c.kind() == K::LineComment).unwrap_or_else(|| c.node.text().to_string())
                } else {
                    String::new()
                };
                cuts.push((c.start, c.end(), rep));
            }
        }
    }
    if cuts.is_empty() {
        return None;
    }
    let mut out = String::new();
    let mut last = 0;
    for (a, b, rep) in cuts {
        out.push_str(&input[last..a]);
        out.push_str(&rep);
        last = b;
    }
    out.push_str(&input[last..]);
    tree::parse_ok(&out).map(|_| out)
}

// ------------------------------------------------------------------------------------------------
// comment position keys

/// (shape, parent, grandparent, previous and next non-blank sibling kind) of the comment at leaf index.
pub fn comment_key(root: &SyntaxNode, comment_start: usize) -> Option<String> {
    let mut found: Option<String> = None;
    tree::walk(root, &mut |n, off, anc| {
        if found.is_some() || off != comment_start || !tree::is_comment(n.kind()) {
            return;
        }
        let parent = anc.last().copied();
        let grand = if anc.len() >= 2 { Some(anc[anc.len() - 2]) } else { None };
        // shape: L line, B one-line block, M multi-line plain, MB multi-line bullet style; +w when a continuation
        // line is empty or blank-only; +d when the comment is a `@typstyle off` directive (those steer the printer)
        let t = n.text();
        let mut shape = if n.kind() == K::LineComment {
            "L".to_string()
        } else if t.contains('\n') {
            let bullet = t.lines().skip(1).all(|l| l.trim_start().starts_with('*'));
            if bullet { "MB".to_string() } else { "M".to_string() }
        } else {
            "B".to_string()
        };
        if t.lines().skip(1).any(|l| l.trim().is_empty()) {
            shape.push('w');
        }
        if t.contains("@typstyle off") {
            shape.push('d');
        }
        let (mut prev, mut next) = ("^".to_string(), "$".to_string());
        if let Some(p) = parent {
            let kids: Vec<&SyntaxNode> = p.children().collect();
            // locate by pointer identity
            if let Some(i) = kids.iter().position(|k| std::ptr::eq(*k, n)) {
                if let Some(k) = kids[..i].iter().rev().find(|k| k.kind() != K::Space) {
                    prev = format!("{:?}", k.kind());
                }
                if let Some(k) = kids[i + 1..].iter().find(|k| k.kind() != K::Space) {
                    next = format!("{:?}", k.kind());
                }
            }
        }
        found = Some(format!(
            "{}|{}|{}|{}|{}",
            shape,
            parent.map(|p| format!("{:?}", p.kind())).unwrap_or_else(|| "-".into()),
            grand.map(|p| format!("{:?}", p.kind())).unwrap_or_else(|| "-".into()),
            prev,
            next
        ));
    });
    found
}

/// Keys of all comments whose removal makes the violation disappear.
pub fn culprit_comment_keys(v: &Violation) -> Vec<String> {
    let Some(root) = tree::parse_ok(&v.input) else { return vec![] };
    let leaves = tree::leaves(&root);
    let comments: Vec<_> = leaves.iter().filter(|l| tree::is_comment(l.kind())).collect();
    if comments.is_empty() || comments.len() > 400 {
        return vec![];
    }
    let mut keys = vec![];
    for c in comments {
        // counterfactual inputs: the comment deleted / replaced by a blank (line comment: keep its line break)
        let (s, e) = (c.start, c.end());
        let variants = [
            format!("{}{}", &v.input[..s], &v.input[e..]),
            format!("{} {}", &v.input[..s], &v.input[e..]),
        ];
        let mut culprit = false;
        for x in variants.iter() {
            if tree::parse_ok(x).is_none() {
                continue;
            }
            if recheck(v, x) == Some(false) {
                culprit = true;
                break;
            }
        }
        if culprit {
            // the *position* must be what matters, not what the comment says: with the comment replaced by the canonical
            // comment of its shape the violation has to persist. A defect that depends on the comment's content (a blank-only
            // line inside it, its length, a character in it) is not explained by a position key.
            let independent = match canonical_comment(c.node.text(), c.kind() == K::LineComment) {
                None => true,
                Some(canon) => {
                    let x = format!("{}{}{}", &v.input[..s], canon, &v.input[e..]);
                    tree::parse_ok(&x).is_some() && recheck(v, &x) == Some(true)
                }
            };
            if !independent {
                continue;
            }
            if let Some(k) = comment_key(&root, c.start) {
                if !keys.contains(&k) {
                    keys.push(k);
                }
            }
        }
    }
    keys
}

fn is_canon(text: &str, pre: &str, mid: Option<&str>, post: &str) -> bool {
    // pre <digits> [mid <digits>] post
    let Some(rest) = text.strip_prefix(pre) else { return false };
    let d = rest.len() - rest.trim_start_matches(|c: char| c.is_ascii_digit()).len();
    let rest = &rest[d..];
    match mid {
        None => d > 0 && rest == post,
        Some(m) => {
            let Some(rest) = rest.strip_prefix(m) else { return false };
            let d2 = rest.len() - rest.trim_start_matches(|c: char| c.is_ascii_digit()).len();
            d > 0 && d2 > 0 && &rest[d2..] == post
        }
    }
}

/// The canonical comment of the same shape class (the shapes the comment mutator injects), or None when the comment already is
/// one, or is a `@typstyle` directive (whose text is its function).
pub fn canonical_comment(text: &str, line: bool) -> Option<String> {
    if text.contains("@typstyle") {
        return None;
    }
    if line {
        return if is_canon(text, "// c", None, "") { None } else { Some("// c0".into()) };
    }
    if !text.contains('\n') {
        return if is_canon(text, "/* c", None, " */") { None } else { Some("/* c0 */".into()) };
    }
    let bullet = text.lines().skip(1).all(|l| l.trim_start().starts_with('*'));
    let blank = text.lines().skip(1).any(|l| l.trim().is_empty());
    if bullet {
        return if is_canon(text, "/* c", Some("\n * y"), "\n */") { None } else { Some("/* c0\n * y0\n */".into()) };
    }
    if blank {
        let canon = "/* c0\n\n  x0 */";
        return if text == canon { None } else { Some(canon.into()) };
    }
    if is_canon(text, "/* c", Some("\n  x"), " */") {
        None
    } else {
        Some("/* c0\n  x0 */".into())
    }
}

// ------------------------------------------------------------------------------------------------
// input repairs

fn is_blank(c: char) -> bool {
    c.is_whitespace() && !tree::is_newline_char(c)
}

/// Strip blanks that sit directly before a line break inside Str / Raw tokens.
fn repair_eol_blank_in_literal(input: &str) -> Option<String> {
    let root = tree::parse_ok(input)?;
    let mut ranges: Vec<(usize, usize)> = vec![];
    tree::walk(&root, &mut |n, off, _| {
        if matches!(n.kind(), K::Str | K::Raw) {
            ranges.push((off, off + n.len()));
        }
    });
    let mut out = String::with_capacity(input.len());
    let mut changed = false;
    let chars: Vec<(usize, char)> = input.char_indices().collect();
    let in_lit = |p: usize| ranges.iter().any(|&(a, b)| p >= a && p < b);
    let mut i = 0;
    while i < chars.len() {
        let (p, c) = chars[i];
        if is_blank(c) && in_lit(p) {
            // look ahead: run of blanks followed by a newline?
            let mut j = i;
            while j < chars.len() && is_blank(chars[j].1) {
                j += 1;
            }
            if j < chars.len() && tree::is_newline_char(chars[j].1) && in_lit(chars[j].0) {
                changed = true;
                i = j;
                continue;
            }
        }
        out.push(c);
        i += 1;
    }
    if changed {
        Some(out)
    } else {
        None
    }
}

/// Replace CRLF / CR inside Str / Raw tokens by LF (the post-pass rewrites them).
fn repair_cr_in_literal(input: &str) -> Option<String> {
    let root = tree::parse_ok(input)?;
    let mut ranges: Vec<(usize, usize)> = vec![];
    tree::walk(&root, &mut |n, off, _| {
        if matches!(n.kind(), K::Str | K::Raw | K::BlockComment) {
            ranges.push((off, off + n.len()));
        }
    });
    let mut out = String::with_capacity(input.len());
    let mut changed = false;
    let mut prev_cr = false;
    for (p, c) in input.char_indices() {
        let inside = ranges.iter().any(|&(a, b)| p >= a && p < b);
        if inside && c == '\r' {
            out.push('\n');
            changed = true;
            prev_cr = true;
            continue;
        }
        if inside && c == '\n' && prev_cr {
            prev_cr = false;
            continue;
        }
        prev_cr = false;
        out.push(c);
    }
    if changed {
        Some(out)
    } else {
        None
    }
}

/// Strip non-ASCII blanks (NBSP, U+3000, …) that end a line outside literals.
fn repair_nonascii_eol_blank(input: &str) -> Option<String> {
    let mut out = String::with_capacity(input.len());
    let mut changed = false;
    for line in input.split_inclusive('\n') {
        let (body, nl) = match line.strip_suffix('\n') {
            Some(b) => (b, "\n"),
            None => (line, ""),
        };
        let trimmed = body.trim_end_matches(|c: char| c.is_whitespace() && !tree::is_newline_char(c));
        let tail = &body[trimmed.len()..];
        if tail.chars().any(|c| !c.is_ascii()) {
            out.push_str(trimmed);
            changed = true;
        } else {
            out.push_str(body);
        }
        out.push_str(nl);
    }
    if changed {
        Some(out)
    } else {
        None
    }
}

/// Parentheses around a literal that is directly followed by a non-blank character (text, `.`, `[`):
/// counterfactual = the literal replaced by an identifier (the printer keeps parentheses around identifiers).
fn repair_paren_literal_then_text(input: &str) -> Option<String> {
    let root = tree::parse_ok(input)?;
    let mut edits: Vec<(usize, usize)> = vec![];
    tree::walk(&root, &mut |n, off, anc| {
        if n.kind() != K::Parenthesized {
            return;
        }
        if anc.last().map(|p| p.kind() == K::Parenthesized).unwrap_or(false) {
            return; // handled from the outermost layer
        }
        let end = off + n.len();
        let Some(c) = input[end..].chars().next() else { return };
        if c.is_whitespace() || matches!(c, ')' | ']' | '}' | ',' | ';') {
            return;
        }
        // innermost non-parenthesized expression
        let mut cur = n;
        let mut cur_off = off;
        loop {
            let mut o = cur_off;
            let mut next = None;
            for ch in cur.children() {
                if !matches!(ch.kind(), K::LeftParen | K::RightParen | K::Space | K::LineComment | K::BlockComment) {
                    next = Some((ch, o));
                    break;
                }
                o += ch.len();
            }
            match next {
                Some((ch, o)) if ch.kind() == K::Parenthesized => {
                    cur = ch;
                    cur_off = o;
                }
                Some((ch, o)) => {
                    if matches!(ch.kind(), K::Int | K::Float | K::Numeric | K::Str | K::Bool | K::None | K::Auto) {
                        edits.push((o, o + ch.len()));
                    }
                    break;
                }
                None => break,
            }
        }
    });
    if edits.is_empty() {
        return None;
    }
    edits.sort_unstable();
    let mut out = String::new();
    let mut last = 0;
    for (a, b) in edits {
        out.push_str(&input[last..a]);
        out.push_str("zz");
        last = b;
    }
    out.push_str(&input[last..]);
    Some(out)
}

/// Unwrap parentheses around the value of a table/grid `columns:` argument.
fn repair_table_columns_paren(input: &str) -> Option<String> {
    let root = tree::parse_ok(input)?;
    let mut cuts: Vec<(usize, usize)> = vec![]; // byte ranges to delete
    tree::walk(&root, &mut |n, off, anc| {
        if n.kind() != K::Parenthesized {
            return;
        }
        let Some(parent) = anc.last() else { return };
        if parent.kind() != K::Named {
            return;
        }
        let is_columns = parent.children().next().map(|c| c.text() == "columns").unwrap_or(false);
        if !is_columns {
            return;
        }
        // delete the outer "(" and ")" (with adjacent blanks)
        let text = &input[off..off + n.len()];
        let open_len = 1 + text[1..].len() - text[1..].trim_start().len();
        let close_len = 1 + text[..text.len() - 1].len() - text[..text.len() - 1].trim_end().len();
        cuts.push((off, off + open_len));
        cuts.push((off + n.len() - close_len, off + n.len()));
    });
    if cuts.is_empty() {
        return None;
    }
    cuts.sort_unstable();
    let mut out = String::new();
    let mut last = 0;
    for (a, b) in cuts {
        if a < last {
            continue;
        }
        out.push_str(&input[last..a]);
        last = b;
    }
    out.push_str(&input[last..]);
    Some(out)
}

/// Put a blank inside content blocks that hold only comments: `[/* c */]` -> `[ /* c */ ]`.
fn repair_comment_only_content(input: &str) -> Option<String> {
    let root = tree::parse_ok(input)?;
    let mut inserts: Vec<usize> = vec![];
    tree::walk(&root, &mut |n, off, anc| {
        if n.kind() != K::Markup {
            return;
        }
        let Some(parent) = anc.last() else { return };
        if parent.kind() != K::ContentBlock {
            return;
        }
        let has_comment = n.children().any(|c| tree::is_comment(c.kind()));
        let only_trivia = n.children().all(|c| tree::is_comment(c.kind()) || c.kind() == K::Space);
        let has_space = n.children().any(|c| c.kind() == K::Space);
        if has_comment && only_trivia && !has_space {
            inserts.push(off);
            inserts.push(off + n.len());
        }
    });
    if inserts.is_empty() {
        return None;
    }
    inserts.sort_unstable();
    let mut out = String::new();
    let mut last = 0;
    for p in inserts {
        out.push_str(&input[last..p]);
        out.push(' ');
        last = p;
    }
    out.push_str(&input[last..]);
    Some(out)
}

/// A code block with several statements written on one line (`{ let x = 1; x }`) cannot stay on one line
/// (the printer never emits `;`), not even where breaks are suppressed (prose lines, math). Counterfactual:
/// the same block written over several lines in the source.
fn repair_explode_multi_stmt_blocks(input: &str) -> Option<String> {
    let root = tree::parse_ok(input)?;
    let mut edits: Vec<(usize, usize, String)> = vec![];
    tree::walk(&root, &mut |n, off, _| {
        if n.kind() != K::CodeBlock {
            return;
        }
        let text = &input[off..off + n.len()];
        if text.contains('\n') {
            return;
        }
        let Some(code) = n.children().find(|c| c.kind() == K::Code) else { return };
        let stmts: Vec<&SyntaxNode> = code.children().filter(|c| !matches!(c.kind(), K::Space | K::Semicolon) && !tree::is_comment(c.kind())).collect();
        if stmts.len() < 2 || code.children().any(|c| tree::is_comment(c.kind())) {
            return;
        }
        let mut body = String::from("{\n");
        for s in stmts {
            body.push_str(&s.clone().into_text());
            body.push('\n');
        }
        body.push('}');
        edits.push((off, off + n.len(), body));
    });
    if edits.is_empty() {
        return None;
    }
    // innermost-first application would need re-parsing; take the outermost blocks only
    edits.sort_by_key(|e| e.0);
    let mut out = String::new();
    let mut last = 0;
    for (a, b, t) in edits {
        if a < last {
            continue;
        }
        out.push_str(&input[last..a]);
        out.push_str(&t);
        last = b;
    }
    out.push_str(&input[last..]);
    Some(out)
}

pub fn repair(name: &str, input: &str) -> Option<String> {
    match name {
        "eol_blank_in_literal" => repair_eol_blank_in_literal(input),
        "cr_in_literal" => repair_cr_in_literal(input),
        "nonascii_eol_blank" => repair_nonascii_eol_blank(input),
        "paren_literal_then_text" => repair_paren_literal_then_text(input),
        "table_columns_paren" => repair_table_columns_paren(input),
        "comment_only_content" => repair_comment_only_content(input),
        "cli_f14" => crate::p_cli::repair_f14(input),
        "explode_multi_stmt_blocks" => {
            // nested one-line blocks: repeat until no one-line multi-statement block is left
            let mut cur = repair_explode_multi_stmt_blocks(input)?;
            for _ in 0..6 {
                match repair_explode_multi_stmt_blocks(&cur) {
                    Some(n) if n != cur => cur = n,
                    _ => break,
                }
            }
            Some(cur)
        }
        _ => None,
    }
}

#[cfg(test)]
mod tests {
    use super::map_offsets;
    #[test]
    fn offsets() {
        assert_eq!(map_offsets("ab/*c*/de", "abde", &[0, 2, 4, 7, 8, 9, 12], false).unwrap(), vec![0, 2, 2, 2, 3, 4, 7]);
        assert_eq!(map_offsets("#(1)e + (2)f", "#(zz)e + (zz)f", &[4, 9, 12], false).unwrap(), vec![5, 10, 14]);
        assert_eq!(map_offsets("#(1)e + (2)f", "#(zz)e + (zz)f", &[3, 10], true).unwrap(), vec![4, 12]);
        assert_eq!(map_offsets("[/*c*/]", "[ /*c*/ ]", &[1, 6, 7], false).unwrap(), vec![1, 7, 9]);
        assert_eq!(map_offsets("[/*c*/]", "[ /*c*/ ]", &[1, 6], true).unwrap(), vec![2, 8]);
    }
}
