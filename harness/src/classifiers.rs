//! Classifier predicates for known findings (filled in as findings are triaged).

use crate::engine::Violation;
use crate::findings::Finding;

pub fn matches(_f: &Finding, _v: &Violation) -> bool {
    false
}
