//! Small utilities: deterministic RNG, hashing, env.

use sha2::{Digest, Sha256};

/// SplitMix64 — deterministic, seedable, good enough for index selection.
#[derive(Clone)]
pub struct Rng(pub u64);

impl Rng {
    pub fn new(seed: u64) -> Self {
        Rng(seed.wrapping_mul(0x9E37_79B9_7F4A_7C15) ^ 0xD1B5_4A32_D192_ED03)
    }
    pub fn next(&mut self) -> u64 {
        self.0 = self.0.wrapping_add(0x9E37_79B9_7F4A_7C15);
        let mut z = self.0;
        z = (z ^ (z >> 30)).wrapping_mul(0xBF58_476D_1CE4_E5B9);
        z = (z ^ (z >> 27)).wrapping_mul(0x94D0_49BB_1331_11EB);
        z ^ (z >> 31)
    }
    pub fn below(&mut self, n: usize) -> usize {
        if n == 0 {
            0
        } else {
            (self.next() % n as u64) as usize
        }
    }
    pub fn range(&mut self, lo: usize, hi_incl: usize) -> usize {
        lo + self.below(hi_incl - lo + 1)
    }
    pub fn chance(&mut self, num: usize, den: usize) -> bool {
        self.below(den) < num
    }
    pub fn pick<'a, T>(&mut self, xs: &'a [T]) -> &'a T {
        &xs[self.below(xs.len())]
    }
    pub fn shuffle<T>(&mut self, xs: &mut [T]) {
        for i in (1..xs.len()).rev() {
            let j = self.below(i + 1);
            xs.swap(i, j);
        }
    }
    pub fn fork(&mut self, salt: u64) -> Rng {
        Rng::new(self.next() ^ salt.wrapping_mul(0xA24B_AED4_963E_E407))
    }
}

pub fn hash64(s: &str) -> u64 {
    // FNV-1a
    let mut h: u64 = 0xcbf29ce484222325;
    for b in s.as_bytes() {
        h ^= *b as u64;
        h = h.wrapping_mul(0x100000001b3);
    }
    h
}

pub fn hash64_parts(parts: &[&str]) -> u64 {
    let mut h: u64 = 0xcbf29ce484222325;
    for p in parts {
        for b in p.as_bytes() {
            h ^= *b as u64;
            h = h.wrapping_mul(0x100000001b3);
        }
        h ^= 0xff;
        h = h.wrapping_mul(0x100000001b3);
    }
    h
}

pub fn sha_hex(s: &str) -> String {
    let mut h = Sha256::new();
    h.update(s.as_bytes());
    let d = h.finalize();
    d.iter().take(8).map(|b| format!("{:02x}", b)).collect()
}

pub fn seed_from_env() -> u64 {
    std::env::var("VERIF_SEED")
        .ok()
        .and_then(|s| s.trim().parse::<i64>().ok())
        .map(|v| v as u64)
        .unwrap_or(0)
}

pub fn verif_dir() -> std::path::PathBuf {
    std::env::var("VERIF_DIR")
        .map(std::path::PathBuf::from)
        .unwrap_or_else(|_| std::path::PathBuf::from("/verif"))
}

/// Shorten a string for display in messages/evidence.
pub fn clip(s: &str, n: usize) -> String {
    if s.len() <= n {
        return s.to_string();
    }
    let mut end = n;
    while !s.is_char_boundary(end) {
        end -= 1;
    }
    format!("{}…(+{}B)", &s[..end], s.len() - end)
}

pub fn thread_cpu_ns() -> u64 {
    let mut ts = libc::timespec { tv_sec: 0, tv_nsec: 0 };
    unsafe {
        libc::clock_gettime(libc::CLOCK_THREAD_CPUTIME_ID, &mut ts);
    }
    ts.tv_sec as u64 * 1_000_000_000 + ts.tv_nsec as u64
}
