//! Calling the formatter under observation.

use std::cell::RefCell;
use std::panic::{catch_unwind, AssertUnwindSafe};

use typstyle_core::{Config, Typstyle};

#[derive(Clone, Copy, Debug, PartialEq, Eq, Hash, PartialOrd, Ord)]
pub struct Cfg {
    pub width: usize,
    pub tab: usize,
    pub reorder: bool,
}

impl Cfg {
    pub fn new(width: usize, tab: usize, reorder: bool) -> Self {
        Cfg { width, tab, reorder }
    }
    pub fn w(width: usize) -> Self {
        Cfg { width, tab: 2, reorder: false }
    }
    pub fn to_config(self) -> Config {
        Config {
            max_width: self.width,
            tab_spaces: self.tab,
            reorder_import_items: self.reorder,
            ..Default::default()
        }
    }
    pub fn json(&self) -> serde_json::Value {
        serde_json::json!({"max_width": self.width, "tab_spaces": self.tab, "reorder_import_items": self.reorder})
    }
    pub fn from_json(v: &serde_json::Value) -> Cfg {
        Cfg {
            width: v["max_width"].as_u64().unwrap_or(80) as usize,
            tab: v["tab_spaces"].as_u64().unwrap_or(2) as usize,
            reorder: v["reorder_import_items"].as_bool().unwrap_or(false),
        }
    }
}

impl std::fmt::Display for Cfg {
    fn fmt(&self, f: &mut std::fmt::Formatter<'_>) -> std::fmt::Result {
        write!(f, "w={} t={} r={}", self.width, self.tab, self.reorder as u8)
    }
}

#[derive(Clone, Debug, PartialEq, Eq)]
pub enum FmtOut {
    Ok(String),
    /// The library refused the input (syntax errors).
    Refused,
    /// The call panicked: "file:line | message".
    Panic(String),
}

impl FmtOut {
    pub fn ok(&self) -> Option<&str> {
        match self {
            FmtOut::Ok(s) => Some(s),
            _ => None,
        }
    }
}

thread_local! {
    static LAST_PANIC: RefCell<Option<String>> = const { RefCell::new(None) };
    static IN_GUARD: std::cell::Cell<u32> = const { std::cell::Cell::new(0) };
}

/// Install a panic hook that records location + message per thread and stays quiet.
pub fn install_panic_hook() {
    std::panic::set_hook(Box::new(|info| {
        let loc = info
            .location()
            .map(|l| {
                let f = l.file();
                // keep only the path tail from "crates/" or "src/"
                let f = f.rfind("/crates/").map(|i| &f[i + 1..]).unwrap_or(f);
                let f = f
                    .find("/registry/src/")
                    .and_then(|i| f[i + 14..].find('/').map(|j| &f[i + 14 + j + 1..]))
                    .unwrap_or(f);
                format!("{}:{}", f, l.line())
            })
            .unwrap_or_else(|| "?".into());
        let msg = if let Some(s) = info.payload().downcast_ref::<&str>() {
            s.to_string()
        } else if let Some(s) = info.payload().downcast_ref::<String>() {
            s.clone()
        } else {
            "<non-string payload>".into()
        };
        if IN_GUARD.with(|g| g.get()) == 0 {
            // a panic of the harness itself: make it visible
            eprintln!("HARNESS PANIC at {}: {}", loc, msg);
        }
        LAST_PANIC.with(|p| *p.borrow_mut() = Some(format!("{} | {}", loc, msg)));
    }));
}

pub fn take_panic() -> String {
    LAST_PANIC
        .with(|p| p.borrow_mut().take())
        .unwrap_or_else(|| "? | <panic without hook record>".into())
}

pub fn guarded<T>(f: impl FnOnce() -> T) -> Result<T, String> {
    IN_GUARD.with(|g| g.set(g.get() + 1));
    let r = catch_unwind(AssertUnwindSafe(f));
    IN_GUARD.with(|g| g.set(g.get() - 1));
    match r {
        Ok(v) => Ok(v),
        Err(_) => Err(take_panic()),
    }
}

pub fn fmt(text: &str, cfg: Cfg) -> FmtOut {
    let prev = crumb_set(text, cfg);
    let r = match guarded(|| Typstyle::new(cfg.to_config()).format_content(text)) {
        Ok(Ok(s)) => FmtOut::Ok(s),
        Ok(Err(_)) => FmtOut::Refused,
        Err(p) => FmtOut::Panic(p),
    };
    crumb_restore(prev);
    r
}

// ------------------------------------------------------------------------------------------------
// Crash breadcrumb: an abort (allocation failure, stack exhaustion) escapes catch_unwind and kills the whole check process.
// Each thread keeps a pointer to the input it is formatting; a SIGABRT handler writes that input to a pre-opened file with
// write(2) only, so that the supervising parent process can name the input (and confirm it in an isolated worker).

type Crumb = (usize, usize, usize, usize, bool);
thread_local! {
    static CRUMB: std::cell::Cell<Crumb> = const { std::cell::Cell::new((0, 0, 0, 0, false)) };
}
static CRUMB_FD: std::sync::atomic::AtomicI32 = std::sync::atomic::AtomicI32::new(-1);
static CRUMB_WRITTEN: std::sync::atomic::AtomicBool = std::sync::atomic::AtomicBool::new(false);

pub fn crumb_set(text: &str, cfg: Cfg) -> Crumb {
    CRUMB.with(|c| c.replace((text.as_ptr() as usize, text.len(), cfg.width, cfg.tab, cfg.reorder)))
}

pub fn crumb_restore(prev: Crumb) {
    CRUMB.with(|c| c.set(prev));
}

fn write_all(fd: i32, mut b: &[u8]) {
    while !b.is_empty() {
        let n = unsafe { libc::write(fd, b.as_ptr() as *const libc::c_void, b.len()) };
        if n <= 0 {
            return;
        }
        b = &b[n as usize..];
    }
}

fn write_num(fd: i32, mut n: usize) {
    let mut buf = [0u8; 24];
    let mut i = buf.len();
    loop {
        i -= 1;
        buf[i] = b'0' + (n % 10) as u8;
        n /= 10;
        if n == 0 {
            break;
        }
    }
    write_all(fd, &buf[i..]);
    write_all(fd, b" ");
}

extern "C" fn on_abort(_sig: libc::c_int) {
    use std::sync::atomic::Ordering;
    let fd = CRUMB_FD.load(Ordering::Relaxed);
    if fd < 0 {
        return;
    }
    let _ = CRUMB.try_with(|c| {
        let (p, l, w, t, r) = c.get();
        if p != 0 && !CRUMB_WRITTEN.swap(true, Ordering::SeqCst) {
            write_num(fd, w);
            write_num(fd, t);
            write_num(fd, r as usize);
            write_num(fd, l);
            write_all(fd, b"\n");
            write_all(fd, unsafe { std::slice::from_raw_parts(p as *const u8, l) });
        }
    });
    // returning lets abort() finish the job with the default action
}

/// Open the breadcrumb file and hook SIGABRT (used by the supervised inner process of `tyv check`).
pub fn install_crash_crumb(path: &str) {
    let Ok(c) = std::ffi::CString::new(path) else { return };
    let fd = unsafe { libc::open(c.as_ptr(), libc::O_CREAT | libc::O_WRONLY | libc::O_TRUNC, 0o644) };
    if fd < 0 {
        return;
    }
    CRUMB_FD.store(fd, std::sync::atomic::Ordering::Relaxed);
    unsafe {
        let mut sa: libc::sigaction = std::mem::zeroed();
        sa.sa_sigaction = on_abort as usize;
        sa.sa_flags = libc::SA_RESETHAND;
        libc::sigaction(libc::SIGABRT, &sa, std::ptr::null_mut());
    }
}

/// Parse a breadcrumb file: (cfg, input).
pub fn read_crash_crumb(path: &str) -> Option<(Cfg, String)> {
    let b = std::fs::read(path).ok()?;
    let nl = b.iter().position(|&c| c == b'\n')?;
    let head = std::str::from_utf8(&b[..nl]).ok()?;
    let nums: Vec<usize> = head.split_whitespace().filter_map(|x| x.parse().ok()).collect();
    if nums.len() != 4 {
        return None;
    }
    let body = &b[nl + 1..];
    if body.len() != nums[3] {
        return None;
    }
    Some((Cfg::new(nums[0], nums[1], nums[2] != 0), String::from_utf8_lossy(body).into_owned()))
}

/// Width sweeps. `longest` = the longest line of the flat (huge width) output.
pub const W_INF: usize = 1 << 40;

pub fn quick_widths(seed_rng: &mut crate::util::Rng, longest: usize) -> Vec<usize> {
    let mut v = vec![0, 1, 2, 20, 40, 60, 80, 100, 120, W_INF];
    let cap = (longest + 8).min(240).max(3);
    for _ in 0..4 {
        v.push(seed_rng.below(cap + 1));
    }
    v.sort_unstable();
    v.dedup();
    v
}

pub fn all_widths(longest: usize) -> Vec<usize> {
    let cap = (longest + 8).min(240);
    let mut v: Vec<usize> = (0..=cap).collect();
    v.extend([400, 1 << 20, W_INF, usize::MAX / 2]);
    v
}

pub fn longest_line(s: &str) -> usize {
    s.lines().map(|l| l.chars().count()).max().unwrap_or(0)
}
