//! Calling the formatter under observation.

use std::cell::RefCell;
use std::panic::{catch_unwind, AssertUnwindSafe};

use typstyle_core::{Config, Typstyle};

#[derive(Clone, Copy, Debug, PartialEq, Eq, Hash, PartialOrd, Ord)]
pub struct Cfg {
    pub width: usize,
    pub tab: usize,
    pub reorder: bool,
}

impl Cfg {
    pub fn new(width: usize, tab: usize, reorder: bool) -> Self {
        Cfg { width, tab, reorder }
    }
    pub fn w(width: usize) -> Self {
        Cfg { width, tab: 2, reorder: false }
    }
    pub fn to_config(self) -> Config {
        Config {
            max_width: self.width,
            tab_spaces: self.tab,
            reorder_import_items: self.reorder,
            ..Default::default()
        }
    }
    pub fn json(&self) -> serde_json::Value {
        serde_json::json!({"max_width": self.width, "tab_spaces": self.tab, "reorder_import_items": self.reorder})
    }
    pub fn from_json(v: &serde_json::Value) -> Cfg {
        Cfg {
            width: v["max_width"].as_u64().unwrap_or(80) as usize,
            tab: v["tab_spaces"].as_u64().unwrap_or(2) as usize,
            reorder: v["reorder_import_items"].as_bool().unwrap_or(false),
        }
    }
}

impl std::fmt::Display for Cfg {
    fn fmt(&self, f: &mut std::fmt::Formatter<'_>) -> std::fmt::Result {
        write!(f, "w={} t={} r={}", self.width, self.tab, self.reorder as u8)
    }
}

#[derive(Clone, Debug, PartialEq, Eq)]
pub enum FmtOut {
    Ok(String),
    /// The library refused the input (syntax errors).
    Refused,
    /// The call panicked: "file:line | message".
    Panic(String),
}

impl FmtOut {
    pub fn ok(&self) -> Option<&str> {
        match self {
            FmtOut::Ok(s) => Some(s),
            _ => None,
        }
    }
}

thread_local! {
    static LAST_PANIC: RefCell<Option<String>> = const { RefCell::new(None) };
    static IN_GUARD: std::cell::Cell<u32> = const { std::cell::Cell::new(0) };
}

/// Install a panic hook that records location + message per thread and stays quiet.
pub fn install_panic_hook() {
    std::panic::set_hook(Box::new(|info| {
        let loc = info
            .location()
            .map(|l| {
                let f = l.file();
                // keep only the path tail from "crates/" or "src/"
                let f = f.rfind("/crates/").map(|i| &f[i + 1..]).unwrap_or(f);
                let f = f
                    .find("/registry/src/")
                    .and_then(|i| f[i + 14..].find('/').map(|j| &f[i + 14 + j + 1..]))
                    .unwrap_or(f);
                format!("{}:{}", f, l.line())
            })
            .unwrap_or_else(|| "?".into());
        let msg = if let Some(s) = info.payload().downcast_ref::<&str>() {
            s.to_string()
        } else if let Some(s) = info.payload().downcast_ref::<String>() {
            s.clone()
        } else {
            "<non-string payload>".into()
        };
        if IN_GUARD.with(|g| g.get()) == 0 {
            // a panic of the harness itself: make it visible
            eprintln!("HARNESS PANIC at {}: {}", loc, msg);
        }
        LAST_PANIC.with(|p| *p.borrow_mut() = Some(format!("{} | {}", loc, msg)));
    }));
}

pub fn take_panic() -> String {
    LAST_PANIC
        .with(|p| p.borrow_mut().take())
        .unwrap_or_else(|| "? | <panic without hook record>".into())
}

pub fn guarded<T>(f: impl FnOnce() -> T) -> Result<T, String> {
    IN_GUARD.with(|g| g.set(g.get() + 1));
    let r = catch_unwind(AssertUnwindSafe(f));
    IN_GUARD.with(|g| g.set(g.get() - 1));
    match r {
        Ok(v) => Ok(v),
        Err(_) => Err(take_panic()),
    }
}

pub fn fmt(text: &str, cfg: Cfg) -> FmtOut {
    match guarded(|| Typstyle::new(cfg.to_config()).format_content(text)) {
        Ok(Ok(s)) => FmtOut::Ok(s),
        Ok(Err(_)) => FmtOut::Refused,
        Err(p) => FmtOut::Panic(p),
    }
}

/// Width sweeps. `longest` = the longest line of the flat (huge width) output.
pub const W_INF: usize = 1 << 40;

pub fn quick_widths(seed_rng: &mut crate::util::Rng, longest: usize) -> Vec<usize> {
    let mut v = vec![0, 1, 2, 20, 40, 60, 80, 100, 120, W_INF];
    let cap = (longest + 8).min(240).max(3);
    for _ in 0..4 {
        v.push(seed_rng.below(cap + 1));
    }
    v.sort_unstable();
    v.dedup();
    v
}

pub fn all_widths(longest: usize) -> Vec<usize> {
    let cap = (longest + 8).min(240);
    let mut v: Vec<usize> = (0..=cap).collect();
    v.extend([400, 1 << 20, W_INF, usize::MAX / 2]);
    v
}

pub fn longest_line(s: &str) -> usize {
    s.lines().map(|l| l.chars().count()).max().unwrap_or(0)
}
