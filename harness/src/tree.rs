//! Helpers over typst-syntax trees.

use typst_syntax::{parse, SyntaxKind, SyntaxNode};

pub fn parse_ok(text: &str) -> Option<SyntaxNode> {
    let root = parse(text);
    if root.erroneous() {
        None
    } else {
        Some(root)
    }
}

pub fn is_comment(k: SyntaxKind) -> bool {
    matches!(k, SyntaxKind::LineComment | SyntaxKind::BlockComment)
}

pub fn is_trivia(k: SyntaxKind) -> bool {
    matches!(
        k,
        SyntaxKind::LineComment | SyntaxKind::BlockComment | SyntaxKind::Space
    )
}

/// A leaf with its byte offset and the chain of ancestor kinds (root first).
#[derive(Clone, Debug)]
pub struct Leaf<'a> {
    pub node: &'a SyntaxNode,
    pub start: usize,
    pub path: Vec<SyntaxKind>,
}

impl<'a> Leaf<'a> {
    pub fn end(&self) -> usize {
        self.start + self.node.len()
    }
    pub fn kind(&self) -> SyntaxKind {
        self.node.kind()
    }
    pub fn parent(&self) -> SyntaxKind {
        self.path.last().copied().unwrap_or(SyntaxKind::End)
    }
    pub fn grandparent(&self) -> SyntaxKind {
        if self.path.len() >= 2 {
            self.path[self.path.len() - 2]
        } else {
            SyntaxKind::End
        }
    }
}

pub fn leaves(root: &SyntaxNode) -> Vec<Leaf<'_>> {
    let mut out = Vec::new();
    let mut path = Vec::new();
    fn rec<'a>(
        n: &'a SyntaxNode,
        off: &mut usize,
        path: &mut Vec<SyntaxKind>,
        out: &mut Vec<Leaf<'a>>,
    ) {
        if n.children().len() == 0 {
            // leaf (maybe an empty inner node such as empty Markup)
            if n.len() > 0 || !n.text().is_empty() {
                out.push(Leaf { node: n, start: *off, path: path.clone() });
            }
            *off += n.len();
            return;
        }
        path.push(n.kind());
        for c in n.children() {
            rec(c, off, path, out);
        }
        path.pop();
    }
    let mut off = 0;
    rec(root, &mut off, &mut path, &mut out);
    out
}

/// Visit every node with byte offset and depth; callback gets (node, start, ancestors).
pub fn walk<'a>(root: &'a SyntaxNode, f: &mut dyn FnMut(&'a SyntaxNode, usize, &[&'a SyntaxNode])) {
    fn rec<'a>(
        n: &'a SyntaxNode,
        off: &mut usize,
        anc: &mut Vec<&'a SyntaxNode>,
        f: &mut dyn FnMut(&'a SyntaxNode, usize, &[&'a SyntaxNode]),
    ) {
        f(n, *off, anc);
        if n.children().len() == 0 {
            *off += n.len();
            return;
        }
        anc.push(n);
        for c in n.children() {
            rec(c, off, anc, f);
        }
        anc.pop();
    }
    let mut off = 0;
    let mut anc = Vec::new();
    rec(root, &mut off, &mut anc, f);
}

pub fn count_nodes(root: &SyntaxNode) -> usize {
    let mut n = 0;
    walk(root, &mut |_, _, _| n += 1);
    n
}

pub fn count_kind(root: &SyntaxNode, pred: impl Fn(SyntaxKind) -> bool) -> usize {
    let mut n = 0;
    walk(root, &mut |x, _, _| {
        if pred(x.kind()) {
            n += 1
        }
    });
    n
}

pub fn max_depth(root: &SyntaxNode) -> usize {
    let mut d = 0;
    walk(root, &mut |_, _, anc| d = d.max(anc.len()));
    d
}

/// Pretty debug dump of a tree.
pub fn dump(root: &SyntaxNode) -> String {
    let mut s = String::new();
    walk(root, &mut |n, off, anc| {
        for _ in 0..anc.len() {
            s.push_str("  ");
        }
        if n.children().len() == 0 {
            s.push_str(&format!("{:?} {:?} @{}\n", n.kind(), n.text().as_str(), off));
        } else {
            s.push_str(&format!("{:?} @{}\n", n.kind(), off));
        }
    });
    s
}

pub fn is_newline_char(c: char) -> bool {
    matches!(c, '\n' | '\x0B' | '\x0C' | '\r' | '\u{0085}' | '\u{2028}' | '\u{2029}')
}

/// Number of Typst newlines in a string (CRLF counts once).
pub fn count_newlines(s: &str) -> usize {
    let mut n = 0;
    let mut prev_cr = false;
    for c in s.chars() {
        if is_newline_char(c) {
            if !(c == '\n' && prev_cr) {
                n += 1;
            }
        }
        prev_cr = c == '\r';
    }
    n
}
