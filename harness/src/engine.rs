//! Case/verdict bookkeeping shared by all property checks.

use std::collections::{BTreeMap, HashSet};
use std::time::Instant;

use serde_json::{json, Value};

use crate::fmtx::Cfg;
use crate::util;

#[derive(Clone, Debug)]
pub struct Case {
    pub text: String,
    /// provenance: pool / base item / mutator / index
    pub origin: String,
}

impl Case {
    pub fn new(text: impl Into<String>, origin: impl Into<String>) -> Self {
        Case { text: text.into(), origin: origin.into() }
    }
}

#[derive(Clone, Debug)]
pub struct Violation {
    pub property: String,
    pub input: String,
    pub cfg: Option<Cfg>,
    pub origin: String,
    /// oracle name (sub-check) — part of the replay
    pub oracle: String,
    pub detail: String,
    /// extra replay data
    pub extra: Value,
}

impl Violation {
    pub fn key(&self) -> String {
        let c = self.cfg.map(|c| c.to_string()).unwrap_or_default();
        util::sha_hex(&format!("{}|{}|{}|{}|{}", self.property, self.oracle, c, self.input, self.extra))
    }
    pub fn to_json(&self) -> Value {
        json!({
            "property": self.property,
            "oracle": self.oracle,
            "input": self.input,
            "cfg": self.cfg.map(|c| c.json()),
            "origin": self.origin,
            "detail": self.detail,
            "extra": self.extra,
        })
    }
}

/// Thread-local / per-shard accumulator. Merged after join (monitor state never shared between workers).
#[derive(Default)]
pub struct Acc {
    pub evaluations: u64,
    pub held: u64,
    pub inconclusive: BTreeMap<String, u64>,
    pub nontrivial: HashSet<u64>,
    pub violations: Vec<Violation>,
    pub counters: BTreeMap<String, u64>,
    pub samples: Vec<Value>,
    pub distinct_inputs: HashSet<u64>,
}

impl Acc {
    pub fn new() -> Self {
        Default::default()
    }
    pub fn count(&mut self, key: &str, n: u64) {
        *self.counters.entry(key.to_string()).or_insert(0) += n;
    }
    pub fn max(&mut self, key: &str, n: u64) {
        let e = self.counters.entry(key.to_string()).or_insert(0);
        if n > *e {
            *e = n;
        }
    }
    pub fn inconclusive(&mut self, reason: &str) {
        *self.inconclusive.entry(reason.to_string()).or_insert(0) += 1;
    }
    pub fn sample(&mut self, v: Value) {
        if self.samples.len() < 4 {
            self.samples.push(v);
        }
    }
    /// Serialise for transport from an isolated worker process.
    pub fn to_json(&self) -> Value {
        json!({
            "evaluations": self.evaluations,
            "held": self.held,
            "inconclusive": self.inconclusive,
            "nontrivial": self.nontrivial.iter().collect::<Vec<_>>(),
            "distinct_inputs": self.distinct_inputs.iter().collect::<Vec<_>>(),
            "violations": self.violations.iter().map(|v| v.to_json()).collect::<Vec<_>>(),
            "counters": self.counters,
            "samples": self.samples,
        })
    }
    pub fn from_json(v: &Value) -> Acc {
        let mut a = Acc::new();
        a.evaluations = v["evaluations"].as_u64().unwrap_or(0);
        a.held = v["held"].as_u64().unwrap_or(0);
        if let Some(m) = v["inconclusive"].as_object() {
            for (k, x) in m {
                a.inconclusive.insert(k.clone(), x.as_u64().unwrap_or(0));
            }
        }
        for x in v["nontrivial"].as_array().cloned().unwrap_or_default() {
            if let Some(h) = x.as_u64() {
                a.nontrivial.insert(h);
            }
        }
        for x in v["distinct_inputs"].as_array().cloned().unwrap_or_default() {
            if let Some(h) = x.as_u64() {
                a.distinct_inputs.insert(h);
            }
        }
        for x in v["violations"].as_array().cloned().unwrap_or_default() {
            a.violations.push(Violation {
                property: x["property"].as_str().unwrap_or("").to_string(),
                input: x["input"].as_str().unwrap_or("").to_string(),
                cfg: if x["cfg"].is_object() { Some(Cfg::from_json(&x["cfg"])) } else { None },
                origin: x["origin"].as_str().unwrap_or("").to_string(),
                oracle: x["oracle"].as_str().unwrap_or("").to_string(),
                detail: x["detail"].as_str().unwrap_or("").to_string(),
                extra: x["extra"].clone(),
            });
        }
        if let Some(m) = v["counters"].as_object() {
            for (k, x) in m {
                a.counters.insert(k.clone(), x.as_u64().unwrap_or(0));
            }
        }
        a.samples = v["samples"].as_array().cloned().unwrap_or_default();
        a
    }
    pub fn merge(&mut self, o: Acc) {
        self.evaluations += o.evaluations;
        self.held += o.held;
        for (k, v) in o.inconclusive {
            *self.inconclusive.entry(k).or_insert(0) += v;
        }
        self.nontrivial.extend(o.nontrivial);
        self.distinct_inputs.extend(o.distinct_inputs);
        self.violations.extend(o.violations);
        for (k, v) in o.counters {
            if k.starts_with("max_") {
                let e = self.counters.entry(k).or_insert(0);
                if v > *e {
                    *e = v;
                }
            } else {
                *self.counters.entry(k).or_insert(0) += v;
            }
        }
        for s in o.samples {
            if self.samples.len() < 8 {
                self.samples.push(s);
            }
        }
    }
}

pub struct RunMeta {
    pub property: String,
    pub tier: String,
    pub seed: u64,
    pub level: String,
    pub rule: String,
    pub start: Instant,
    pub assumptions: Vec<String>,
    pub pools: Vec<Value>,
    pub exhaustive: bool,
}

impl RunMeta {
    pub fn new(property: &str, tier: &str, level: &str, rule: &str) -> Self {
        RunMeta {
            property: property.into(),
            tier: tier.into(),
            seed: util::seed_from_env(),
            level: level.into(),
            rule: rule.into(),
            start: Instant::now(),
            assumptions: vec![],
            pools: vec![],
            exhaustive: false,
        }
    }
}

/// Run `f` over all cases in parallel with per-worker accumulators.
pub fn par_cases<T: Sync>(items: &[T], f: impl Fn(&T, &mut Acc) + Sync) -> Acc {
    use rayon::prelude::*;
    let chunk = (items.len() / (rayon::current_num_threads() * 8)).max(1);
    items
        .par_chunks(chunk)
        .map(|ch| {
            let mut acc = Acc::new();
            for it in ch {
                f(it, &mut acc);
            }
            acc
        })
        .reduce(Acc::new, |mut a, b| {
            a.merge(b);
            a
        })
}
