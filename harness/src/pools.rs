//! Closed pools: finite, deterministic, index-addressable sets of inputs (DESIGN.md §3.5).

use std::sync::Arc;

use typst_syntax::SyntaxNode;

use crate::engine::Case;
use crate::mutate::{self, Fragment, NodeRef};
use crate::tree;
use crate::util::{self, Rng};

pub trait Pool: Sync + Send {
    fn name(&self) -> String;
    fn len(&self) -> usize;
    /// `None` = index rejected by the admission filter.
    fn get(&self, i: usize) -> Option<Case>;
}

pub struct Base {
    pub case: Case,
    pub root: SyntaxNode,
    pub gaps: Vec<usize>,
    pub lf: usize,
}

pub fn make_bases(cases: Vec<Case>) -> Arc<Vec<Base>> {
    Arc::new(
        cases
            .into_iter()
            .filter_map(|c| {
                let root = tree::parse_ok(&c.text)?;
                let gaps = mutate::gaps(&root);
                let lf = c.text.matches('\n').count();
                Some(Base { case: c, root, gaps, lf })
            })
            .collect(),
    )
}

/// A plain list of cases.
pub struct ListPool {
    pub name: String,
    pub cases: Vec<Case>,
}
impl Pool for ListPool {
    fn name(&self) -> String {
        self.name.clone()
    }
    fn len(&self) -> usize {
        self.cases.len()
    }
    fn get(&self, i: usize) -> Option<Case> {
        self.cases.get(i).cloned()
    }
}

/// base × local index, with per-base counts.
pub struct MutPool {
    pub name: String,
    pub bases: Arc<Vec<Base>>,
    pub prefix: Vec<usize>,
    pub f: Box<dyn Fn(&Base, usize) -> Option<String> + Sync + Send>,
}

impl MutPool {
    pub fn new(
        name: &str,
        bases: Arc<Vec<Base>>,
        count: impl Fn(&Base) -> usize,
        f: impl Fn(&Base, usize) -> Option<String> + Sync + Send + 'static,
    ) -> Self {
        let mut prefix = vec![0usize];
        for b in bases.iter() {
            prefix.push(prefix.last().unwrap() + count(b));
        }
        MutPool { name: name.into(), bases, prefix, f: Box::new(f) }
    }
    fn locate(&self, i: usize) -> (usize, usize) {
        let b = match self.prefix.binary_search(&i) {
            Ok(mut p) => {
                // skip empty bases
                while p + 1 < self.prefix.len() && self.prefix[p + 1] == self.prefix[p] {
                    p += 1;
                }
                p
            }
            Err(p) => p - 1,
        };
        (b, i - self.prefix[b])
    }
}

impl Pool for MutPool {
    fn name(&self) -> String {
        self.name.clone()
    }
    fn len(&self) -> usize {
        *self.prefix.last().unwrap()
    }
    fn get(&self, i: usize) -> Option<Case> {
        let (b, j) = self.locate(i);
        let base = self.bases.get(b)?;
        let text = (self.f)(base, j)?;
        Some(Case::new(text, format!("{}|{}#{}", base.case.origin, self.name, j)))
    }
}

pub struct GenPool {
    pub name: String,
    pub n: usize,
    pub f: Box<dyn Fn(u64) -> Option<String> + Sync + Send>,
}
impl Pool for GenPool {
    fn name(&self) -> String {
        self.name.clone()
    }
    fn len(&self) -> usize {
        self.n
    }
    fn get(&self, i: usize) -> Option<Case> {
        let text = (self.f)(i as u64)?;
        Some(Case::new(text, format!("{}#{}", self.name, i)))
    }
}

// ------------------------------------------------------------------------------------------------
// Concrete mutation pools

pub fn comment_pool(bases: Arc<Vec<Base>>) -> MutPool {
    MutPool::new(
        "M-COMMENT",
        bases,
        |b| b.gaps.len() * mutate::COMMENT_SHAPES,
        |b, j| {
            let g = j / mutate::COMMENT_SHAPES;
            let shape = j % mutate::COMMENT_SHAPES;
            let at = *b.gaps.get(g)?;
            let m = mutate::insert_comment(&b.case.text, at, shape, g);
            if mutate::admit_comment(&b.root, &m) {
                Some(m)
            } else {
                None
            }
        },
    )
}

pub fn ws_pool(bases: Arc<Vec<Base>>) -> MutPool {
    MutPool::new(
        "M-WS",
        bases,
        |b| b.gaps.len() * mutate::WS_VARIANTS,
        |b, j| {
            let g = j / mutate::WS_VARIANTS;
            let m = mutate::mutate_ws(&b.case.text, &b.root, g, j % mutate::WS_VARIANTS)?;
            tree::parse_ok(&m).map(|_| m)
        },
    )
}

pub fn eol_pool(bases: Arc<Vec<Base>>) -> MutPool {
    MutPool::new(
        "M-EOL",
        bases,
        |b| {
            if b.lf == 0 {
                0
            } else {
                mutate::EOL_GLOBAL_VARIANTS + b.lf.min(40) * mutate::EXOTIC_NEWLINES.len()
            }
        },
        |b, j| {
            let m = if j < mutate::EOL_GLOBAL_VARIANTS {
                let mut rng = Rng::new(util::hash64(&b.case.text) ^ j as u64);
                mutate::mutate_eol_global(&b.case.text, j, &mut rng)
            } else {
                let k = j - mutate::EOL_GLOBAL_VARIANTS;
                let n = mutate::EXOTIC_NEWLINES.len();
                // spread over the line feeds of the file
                let lf_idx = (k / n) * b.lf / b.lf.min(40);
                mutate::mutate_eol_single(&b.case.text, lf_idx, k % n)?
            };
            tree::parse_ok(&m).map(|_| m)
        },
    )
}

pub fn eolblank_pool(bases: Arc<Vec<Base>>) -> MutPool {
    MutPool::new(
        "M-EOLBLANK",
        bases,
        |b| (b.lf.min(60) + 1) * mutate::EOL_BLANKS.len(),
        |b, j| {
            let n = mutate::EOL_BLANKS.len();
            let cap = b.lf.min(60);
            let li = j / n;
            let line = if li == cap { b.lf } else if cap == 0 { 0 } else { li * b.lf / cap };
            let m = mutate::mutate_eolblank(&b.case.text, line, j % n)?;
            tree::parse_ok(&m).map(|_| m)
        },
    )
}

pub fn paren_pool(bases: Arc<Vec<Base>>) -> MutPool {
    let sites: Arc<Vec<Vec<NodeRef>>> = Arc::new(bases.iter().map(|b| mutate::paren_sites(&b.root)).collect());
    let index: std::collections::HashMap<String, usize> =
        bases.iter().enumerate().map(|(i, b)| (b.case.origin.clone(), i)).collect();
    let s2 = sites.clone();
    let mut prefix = vec![0usize];
    for s in sites.iter() {
        prefix.push(prefix.last().unwrap() + s.len() * mutate::PAREN_VARIANTS);
    }
    MutPool {
        name: "M-PAREN".into(),
        bases,
        prefix,
        f: Box::new(move |b, j| {
            let bi = *index.get(&b.case.origin)?;
            let site = s2[bi].get(j / mutate::PAREN_VARIANTS)?;
            let m = mutate::mutate_paren(&b.case.text, site, j % mutate::PAREN_VARIANTS);
            tree::parse_ok(&m).map(|_| m)
        }),
    }
}

/// M-PPAREN: redundant parentheses around *patterns* (closure parameters, let/for patterns, destructuring items).
pub fn pattern_paren_pool(bases: Arc<Vec<Base>>) -> MutPool {
    let sites: Arc<Vec<Vec<NodeRef>>> = Arc::new(bases.iter().map(|b| mutate::pattern_paren_sites(&b.root)).collect());
    let index: std::collections::HashMap<String, usize> =
        bases.iter().enumerate().map(|(i, b)| (b.case.origin.clone(), i)).collect();
    let mut prefix = vec![0usize];
    for s in sites.iter() {
        prefix.push(prefix.last().unwrap() + s.len() * mutate::PAREN_VARIANTS);
    }
    MutPool {
        name: "M-PPAREN".into(),
        bases,
        prefix,
        f: Box::new(move |b, j| {
            let bi = *index.get(&b.case.origin)?;
            let site = sites[bi].get(j / mutate::PAREN_VARIANTS)?;
            let m = mutate::mutate_paren(&b.case.text, site, j % mutate::PAREN_VARIANTS);
            tree::parse_ok(&m).map(|_| m)
        }),
    }
}

pub const SPLICE_PER_SITE: usize = 6;
pub fn splice_pool(bases: Arc<Vec<Base>>, frags: Arc<Vec<Fragment>>) -> MutPool {
    let sites: Arc<Vec<Vec<NodeRef>>> = Arc::new(bases.iter().map(|b| mutate::splice_sites(&b.root)).collect());
    let index: std::collections::HashMap<String, usize> =
        bases.iter().enumerate().map(|(i, b)| (b.case.origin.clone(), i)).collect();
    let mut prefix = vec![0usize];
    for s in sites.iter() {
        prefix.push(prefix.last().unwrap() + s.len() * SPLICE_PER_SITE);
    }
    let code_frags: Vec<usize> = frags.iter().enumerate().filter(|(_, f)| f.mode == mutate::Mode::Code).map(|(i, _)| i).collect();
    let math_frags: Vec<usize> = frags.iter().enumerate().filter(|(_, f)| f.mode == mutate::Mode::Math).map(|(i, _)| i).collect();
    MutPool {
        name: "M-SPLICE".into(),
        bases,
        prefix,
        f: Box::new(move |b, j| {
            let bi = *index.get(&b.case.origin)?;
            let site = sites[bi].get(j / SPLICE_PER_SITE)?;
            let mut rng = Rng::new(util::hash64(&b.case.origin) ^ (j as u64).wrapping_mul(0x9E3779B97F4A7C15));
            let list = if site.mode == mutate::Mode::Math { &math_frags } else { &code_frags };
            if list.is_empty() {
                return None;
            }
            let frag = &frags[list[rng.below(list.len())]];
            // statements are only spliced over statements (an `import` as a binary operand is not realistic input)
            if mutate::is_statement_kind(frag.kind) && !mutate::is_statement_kind(site.kind) {
                return None;
            }
            let m = mutate::mutate_splice(&b.case.text, site, frag);
            if m.len() > 20_000 {
                return None;
            }
            tree::parse_ok(&m).map(|_| m)
        }),
    }
}

pub fn uni_pool(bases: Arc<Vec<Base>>) -> MutPool {
    MutPool::new(
        "M-UNI",
        bases,
        |b| mutate::uni_target_count(&b.root).min(30) * mutate::UNI_SAMPLES.len(),
        |b, j| {
            let n = mutate::UNI_SAMPLES.len();
            let m = mutate::mutate_uni(&b.case.text, &b.root, j / n, j % n)?;
            tree::parse_ok(&m).map(|_| m)
        },
    )
}

pub fn blank_pool(bases: Arc<Vec<Base>>) -> MutPool {
    let targets: Arc<Vec<Vec<(usize, usize)>>> = Arc::new(bases.iter().map(|b| mutate::blank_targets(&b.root)).collect());
    let index: std::collections::HashMap<String, usize> =
        bases.iter().enumerate().map(|(i, b)| (b.case.origin.clone(), i)).collect();
    let mut prefix = vec![0usize];
    for t in targets.iter() {
        prefix.push(prefix.last().unwrap() + t.len().min(12) * mutate::BLANK_VARIANTS);
    }
    MutPool {
        name: "M-BLANK".into(),
        bases,
        prefix,
        f: Box::new(move |b, j| {
            let bi = *index.get(&b.case.origin)?;
            let t = *targets[bi].get(j / mutate::BLANK_VARIANTS)?;
            let m = mutate::mutate_blank(&b.case.text, t, j % mutate::BLANK_VARIANTS)?;
            tree::parse_ok(&m).map(|_| m)
        }),
    }
}

// ------------------------------------------------------------------------------------------------
// Selection

/// Choose `want` indices from a pool of `total` (all of them if want >= total), deterministic in rng.
pub fn select(total: usize, want: usize, rng: &mut Rng) -> Vec<usize> {
    if want >= total {
        return (0..total).collect();
    }
    let mut set = std::collections::BTreeSet::new();
    // a contiguous seed-chosen window (locality: all shapes at neighbouring gaps) plus scattered picks
    let win = want / 2;
    let start = rng.below(total);
    for k in 0..win {
        set.insert((start + k) % total);
    }
    while set.len() < want {
        set.insert(rng.below(total));
    }
    set.into_iter().collect()
}

/// Every `stride`-th item of another pool (keeps closed pools small enough to be swept completely).
pub struct StridePool {
    pub inner: Box<dyn Pool>,
    pub stride: usize,
}
impl Pool for StridePool {
    fn name(&self) -> String {
        format!("{}/stride{}", self.inner.name(), self.stride)
    }
    fn len(&self) -> usize {
        self.inner.len() / self.stride
    }
    fn get(&self, i: usize) -> Option<Case> {
        self.inner.get(i * self.stride)
    }
}
pub fn stride(p: impl Pool + 'static, stride: usize) -> StridePool {
    StridePool { inner: Box::new(p), stride }
}
