//! Known findings (DESIGN.md §5): committed list + classifiers.
//!
//! A violation is attributed to a listed *open* finding only when the finding's classifier
//! (a predicate in this file that looks at the input, the config and the oracle detail, and
//! usually re-runs the formatter on a counterfactually repaired input) accepts it.
//! The file is never written at run time.

use serde_json::Value;

use crate::engine::Violation;
use crate::util;

#[derive(Clone, Debug)]
pub struct Finding {
    pub id: String,
    pub status: String,
    pub properties: Vec<String>,
    pub what: String,
    pub classifier: String,
    pub params: Value,
    pub repros: Vec<Value>,
    pub commit: String,
}

pub fn load() -> Vec<Finding> {
    let path = util::verif_dir().join("known_findings.json");
    let Ok(s) = std::fs::read_to_string(&path) else {
        return vec![];
    };
    let v: Value = serde_json::from_str(&s).expect("known_findings.json must be valid JSON");
    let mut out = vec![];
    for f in v["findings"].as_array().cloned().unwrap_or_default() {
        out.push(Finding {
            id: f["id"].as_str().unwrap_or("").to_string(),
            status: f["status"].as_str().unwrap_or("open").to_string(),
            properties: f["properties"]
                .as_array()
                .map(|a| a.iter().filter_map(|x| x.as_str().map(|s| s.to_string())).collect())
                .unwrap_or_default(),
            what: f["what"].as_str().unwrap_or("").to_string(),
            classifier: f["classifier"].as_str().unwrap_or("").to_string(),
            params: f["params"].clone(),
            repros: f["repros"].as_array().cloned().unwrap_or_default(),
            commit: f["commit"].as_str().unwrap_or("").to_string(),
        });
    }
    out
}

/// Return the id of the open finding that explains this violation, if any.
pub fn classify(db: &[Finding], v: &Violation) -> Option<String> {
    for f in db {
        if f.status != "open" {
            continue; // fixed entries suppress nothing
        }
        if !f.properties.iter().any(|p| p == &v.property) {
            continue;
        }
        if crate::classifiers::matches(f, v) {
            return Some(f.id.clone());
        }
    }
    None
}
