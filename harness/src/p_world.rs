//! C02 — stub (filled in below)
use crate::engine::{Acc, RunMeta};
use crate::fmtx::Cfg;
use crate::workload::Tier;
pub fn violated(_input: &str, _cfg: Cfg) -> Option<bool> { None }
pub fn run(tier: Tier) -> (RunMeta, Acc) { (RunMeta::new("C02", tier.name(), "exploration", ""), Acc::new()) }
