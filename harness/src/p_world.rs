//! C02 — formatting never changes what the document compiles to.
//!
//! Both texts are compiled with typst 0.13.1 in an in-memory world (main file only, embedded fonts, fixed date,
//! no packages, no file system) and rendered with typst-render at 2 px/pt.

#![cfg_attr(not(feature = "world"), allow(unused))]

use crate::engine::{Acc, RunMeta};
use crate::fmtx::Cfg;
use crate::workload::Tier;

#[cfg(not(feature = "world"))]
pub fn violated(_input: &str, _cfg: Cfg) -> Option<bool> {
    None
}

#[cfg(not(feature = "world"))]
pub fn run(tier: Tier) -> (RunMeta, Acc) {
    let mut acc = Acc::new();
    acc.inconclusive("built-without-feature-world");
    (RunMeta::new("C02", tier.name(), "exploration", "built without the typst compiler"), acc)
}

#[cfg(feature = "world")]
pub use imp::*;

#[cfg(feature = "world")]
mod imp {
    use std::sync::OnceLock;

    use serde_json::json;
    use typst::diag::{FileError, FileResult, Severity, SourceDiagnostic};
    use typst::foundations::{Bytes, Datetime};
    use typst::layout::PagedDocument;
    use typst::syntax::{FileId, Source, VirtualPath};
    use typst::text::{Font, FontBook};
    use typst::utils::LazyHash;
    use typst::{Library, World};

    use crate::engine::{Acc, Case, RunMeta, Violation};
    use crate::fmtx::{self, Cfg, FmtOut};
    use crate::pools::{self, GenPool, ListPool};
    use crate::util::{self, Rng};
    use crate::workload::{self, CfgRule, Part, Std, Tier};
    use crate::{corpus, gen};

    struct Shared {
        library: LazyHash<Library>,
        book: LazyHash<FontBook>,
        fonts: Vec<Font>,
    }

    fn shared() -> &'static Shared {
        static S: OnceLock<Shared> = OnceLock::new();
        S.get_or_init(|| {
            let mut fonts = vec![];
            for data in typst_assets::fonts() {
                for f in Font::iter(Bytes::new(data)) {
                    fonts.push(f);
                }
            }
            let book = FontBook::from_fonts(&fonts);
            Shared { library: LazyHash::new(Library::default()), book: LazyHash::new(book), fonts }
        })
    }

    struct MemWorld {
        main: Source,
    }

    impl MemWorld {
        fn new(text: &str) -> MemWorld {
            let id = FileId::new(None, VirtualPath::new("/main.typ"));
            MemWorld { main: Source::new(id, text.to_string()) }
        }
    }

    impl World for MemWorld {
        fn library(&self) -> &LazyHash<Library> {
            &shared().library
        }
        fn book(&self) -> &LazyHash<FontBook> {
            &shared().book
        }
        fn main(&self) -> FileId {
            self.main.id()
        }
        fn source(&self, id: FileId) -> FileResult<Source> {
            if id == self.main.id() {
                Ok(self.main.clone())
            } else {
                Err(FileError::NotFound(id.vpath().as_rootless_path().to_path_buf()))
            }
        }
        fn file(&self, id: FileId) -> FileResult<Bytes> {
            Err(FileError::NotFound(id.vpath().as_rootless_path().to_path_buf()))
        }
        fn font(&self, index: usize) -> Option<Font> {
            shared().fonts.get(index).cloned()
        }
        fn today(&self, _offset: Option<i64>) -> Option<Datetime> {
            Datetime::from_ymd(2024, 1, 1)
        }
    }

    #[derive(Debug, Clone, PartialEq, Eq)]
    pub enum Summary {
        Ok { pages: Vec<(i64, i64, u64)>, info: String, warnings: Vec<String> },
        Err { diags: Vec<String>, warnings: Vec<String> },
        TooSlow,
    }

    fn diag_repr(d: &SourceDiagnostic) -> String {
        format!(
            "{}:{}{}",
            match d.severity {
                Severity::Error => "error",
                Severity::Warning => "warning",
            },
            d.message,
            if d.hints.is_empty() { String::new() } else { format!(" hints={:?}", d.hints) }
        )
    }

    fn hash_bytes(b: &[u8]) -> u64 {
        let mut h: u64 = 0xcbf29ce484222325;
        for chunk in b.chunks(8) {
            let mut v = 0u64;
            for (i, x) in chunk.iter().enumerate() {
                v |= (*x as u64) << (8 * i);
            }
            h ^= v;
            h = h.wrapping_mul(0x100000001b3);
        }
        h
    }

    pub fn compile_summary(text: &str) -> Summary {
        let world = MemWorld::new(text);
        let t0 = util::thread_cpu_ns();
        let res = match fmtx::guarded(|| typst::compile::<PagedDocument>(&world)) {
            Ok(r) => r,
            Err(_) => return Summary::TooSlow, // the reference compiler itself panicked: nothing to compare
        };
        let mut warnings: Vec<String> = res.warnings.iter().map(diag_repr).collect();
        warnings.sort();
        let out = match res.output {
            Ok(doc) => {
                if util::thread_cpu_ns() - t0 > 5_000_000_000 {
                    return Summary::TooSlow;
                }
                let mut pages = vec![];
                for p in doc.pages.iter().take(12) {
                    let pm = typst_render::render(p, 2.0);
                    pages.push((
                        (p.frame.width().to_pt() * 1000.0) as i64,
                        (p.frame.height().to_pt() * 1000.0) as i64,
                        hash_bytes(pm.data()),
                    ));
                }
                if doc.pages.len() > 12 {
                    pages.push((doc.pages.len() as i64, 0, 0));
                }
                let info = format!("title={:?} author={:?} keywords={:?} date={:?} description={:?}", doc.info.title, doc.info.author, doc.info.keywords, doc.info.date, doc.info.description);
                Summary::Ok { pages, info, warnings }
            }
            Err(errs) => {
                let mut diags: Vec<String> = errs.iter().map(diag_repr).collect();
                diags.sort();
                Summary::Err { diags, warnings }
            }
        };
        out
    }

    fn describe(a: &Summary, b: &Summary) -> String {
        match (a, b) {
            (Summary::Ok { pages: pa, info: ia, warnings: wa }, Summary::Ok { pages: pb, info: ib, warnings: wb }) => {
                if pa.len() != pb.len() {
                    format!("page count {} -> {}", pa.len(), pb.len())
                } else if let Some(i) = (0..pa.len()).find(|&i| pa[i] != pb[i]) {
                    if (pa[i].0, pa[i].1) != (pb[i].0, pb[i].1) {
                        format!("page {} size {:?} -> {:?} (1/1000 pt)", i + 1, (pa[i].0, pa[i].1), (pb[i].0, pb[i].1))
                    } else {
                        format!("page {} renders differently (pixel hash {:x} -> {:x})", i + 1, pa[i].2, pb[i].2)
                    }
                } else if ia != ib {
                    format!("document info {} -> {}", ia, ib)
                } else {
                    format!("warnings {:?} -> {:?}", wa, wb)
                }
            }
            (Summary::Ok { .. }, Summary::Err { diags, .. }) => format!("original compiles, formatted text fails: {:?}", diags),
            (Summary::Err { diags, .. }, Summary::Ok { .. }) => format!("original fails ({:?}), formatted text compiles", diags),
            (Summary::Err { diags: da, warnings: wa }, Summary::Err { diags: db, warnings: wb }) => {
                if da != db {
                    format!("diagnostics {:?} -> {:?}", da, db)
                } else {
                    format!("warnings {:?} -> {:?}", wa, wb)
                }
            }
            _ => "compile too slow".into(),
        }
    }

    pub fn run_case(case: &Case, cfgs: &[Cfg], acc: &mut Acc) {
        if crate::tree::parse_ok(&case.text).is_none() {
            acc.inconclusive("input-erroneous");
            return;
        }
        // programs that make the *compiler* allocate without bound are outside what can be observed safely
        let mut huge = false;
        if let Some(root) = crate::tree::parse_ok(&case.text) {
            crate::tree::walk(&root, &mut |n, _, _| {
                if matches!(n.kind(), typst::syntax::SyntaxKind::Int | typst::syntax::SyntaxKind::Float | typst::syntax::SyntaxKind::Numeric) {
                    let digits = n.text().chars().filter(|c| c.is_ascii_digit()).count();
                    if digits > 4 || n.text().contains('e') {
                        huge = true;
                    }
                }
            });
        }
        if huge {
            acc.inconclusive("huge-number-literal(compiler resource risk)");
            return;
        }
        let xh = util::hash64(&case.text);
        acc.distinct_inputs.insert(xh);
        let sx = compile_summary(&case.text);
        if sx == Summary::TooSlow {
            acc.inconclusive("compile-too-slow-or-compiler-panic");
            return;
        }
        acc.count("compiles", 1);
        match &sx {
            Summary::Ok { pages, .. } => {
                acc.count("inputs_that_compile", 1);
                acc.count("pages_rendered", pages.len() as u64);
            }
            _ => acc.count("inputs_that_fail_to_compile(diagnostics clause)", 1),
        }
        let mut seen = std::collections::HashSet::new();
        for &cfg in cfgs {
            let y = match fmtx::fmt(&case.text, cfg) {
                FmtOut::Ok(y) => y,
                FmtOut::Refused => {
                    acc.inconclusive("refused");
                    continue;
                }
                FmtOut::Panic(_) => {
                    acc.inconclusive("panic(see C05)");
                    continue;
                }
            };
            acc.evaluations += 1;
            if !seen.insert(util::hash64(&y)) {
                acc.held += 1;
                acc.count("executions_with_already_judged_output", 1);
                continue;
            }
            if y == case.text {
                acc.held += 1;
                continue;
            }
            let sy = compile_summary(&y);
            acc.count("compiles", 1);
            if sy == Summary::TooSlow {
                acc.inconclusive("compile-too-slow");
                continue;
            }
            if sx == sy {
                acc.held += 1;
                if matches!(sx, Summary::Ok { .. }) {
                    acc.nontrivial.insert(xh);
                    if acc.samples.len() < 3 && case.text.len() < 200 {
                        acc.sample(json!({"input": case.text, "cfg": cfg.json(), "output": y, "origin": case.origin, "summary": format!("{:?}", sx)}));
                    }
                }
            } else {
                acc.nontrivial.insert(xh);
                acc.violations.push(Violation {
                    property: "C02".into(),
                    input: case.text.clone(),
                    cfg: Some(cfg),
                    origin: case.origin.clone(),
                    oracle: "compile+render-equal".into(),
                    detail: describe(&sx, &sy),
                    extra: serde_json::Value::Null,
                });
            }
        }
        // bound comemo's cache
        comemo::evict(4);
    }

    pub fn violated(input: &str, cfg: Cfg) -> Option<bool> {
        crate::tree::parse_ok(input)?;
        let mut acc = Acc::new();
        run_case(&Case::new(input, "recheck"), &[cfg], &mut acc);
        if !acc.violations.is_empty() {
            Some(true)
        } else if acc.held > 0 {
            Some(false)
        } else {
            None
        }
    }

    // --------------------------------------------------------------------------------------------
    // isolated workers

    const WORKER_AS_LIMIT: u64 = 6 << 30;
    const CASE_CPU_SECS: u64 = 40;

    /// `tyv worker-c02`: one JSON job per stdin line; `BEGIN i` / `END i <acc json>` on stdout.
    pub fn worker_main() -> i32 {
        use std::io::{BufRead, Write};
        let stdin = std::io::stdin();
        let stdout = std::io::stdout();
        for (i, line) in stdin.lock().lines().enumerate() {
            let Ok(line) = line else { break };
            let Ok(v) = serde_json::from_str::<serde_json::Value>(&line) else { continue };
            let case = Case::new(v["text"].as_str().unwrap_or(""), v["origin"].as_str().unwrap_or(""));
            let cfgs: Vec<Cfg> = v["cfgs"].as_array().map(|a| a.iter().map(Cfg::from_json).collect()).unwrap_or_default();
            // move the CPU limit forward: this case may use CASE_CPU_SECS more than what the process has used so far
            unsafe {
                let mut ts = libc::timespec { tv_sec: 0, tv_nsec: 0 };
                libc::clock_gettime(libc::CLOCK_PROCESS_CPUTIME_ID, &mut ts);
                let lim = libc::rlimit { rlim_cur: ts.tv_sec as u64 + CASE_CPU_SECS, rlim_max: libc::RLIM_INFINITY };
                libc::setrlimit(libc::RLIMIT_CPU, &lim);
            }
            {
                let mut o = stdout.lock();
                let _ = writeln!(o, "BEGIN {}", i);
                let _ = o.flush();
            }
            let mut acc = Acc::new();
            run_case(&case, &cfgs, &mut acc);
            let mut o = stdout.lock();
            let _ = writeln!(o, "END {} {}", i, acc.to_json());
            let _ = o.flush();
        }
        0
    }

    fn run_worker_on(jobs: &[(Case, Vec<Cfg>)]) -> (Acc, Option<usize>) {
        // returns the merged accumulator of completed jobs and, if the worker died, the index of the job it died on
        use std::io::{BufRead, BufReader, Write};
        use std::os::unix::process::CommandExt;
        use std::process::{Command, Stdio};
        let exe = std::env::current_exe().unwrap();
        let mut cmd = Command::new(exe);
        cmd.arg("worker-c02").stdin(Stdio::piped()).stdout(Stdio::piped()).stderr(Stdio::null());
        unsafe {
            cmd.pre_exec(|| {
                let lim = libc::rlimit { rlim_cur: WORKER_AS_LIMIT, rlim_max: WORKER_AS_LIMIT };
                libc::setrlimit(libc::RLIMIT_AS, &lim);
                Ok(())
            });
        }
        let Ok(mut child) = cmd.spawn() else { return (Acc::new(), Some(0)) };
        let mut stdin = child.stdin.take().unwrap();
        let lines: Vec<String> = jobs
            .iter()
            .map(|(c, cfgs)| json!({"text": c.text, "origin": c.origin, "cfgs": cfgs.iter().map(|c| c.json()).collect::<Vec<_>>()}).to_string())
            .collect();
        let writer = std::thread::spawn(move || {
            for l in lines {
                if stdin.write_all(l.as_bytes()).is_err() || stdin.write_all(b"\n").is_err() {
                    break;
                }
            }
        });
        let mut acc = Acc::new();
        let mut pending: Option<usize> = None;
        let mut done = 0usize;
        for line in BufReader::new(child.stdout.take().unwrap()).lines() {
            let Ok(line) = line else { break };
            if let Some(rest) = line.strip_prefix("BEGIN ") {
                pending = rest.trim().parse().ok();
            } else if let Some(rest) = line.strip_prefix("END ") {
                if let Some((_, js)) = rest.split_once(' ') {
                    if let Ok(v) = serde_json::from_str::<serde_json::Value>(js) {
                        acc.merge(Acc::from_json(&v));
                    }
                }
                pending = None;
                done += 1;
            }
        }
        let _ = child.wait();
        let _ = writer.join();
        if done >= jobs.len() {
            (acc, None)
        } else {
            (acc, Some(pending.unwrap_or(done)))
        }
    }

    pub fn run_isolated(jobs: &[(Case, Vec<Cfg>)]) -> Acc {
        use rayon::prelude::*;
        let chunk = 40;
        let accs: Vec<Acc> = jobs
            .par_chunks(chunk)
            .map(|ch| {
                let mut total = Acc::new();
                let mut start = 0usize;
                let mut restarts = 0;
                while start < ch.len() {
                    let (acc, died) = run_worker_on(&ch[start..]);
                    total.merge(acc);
                    match died {
                        None => break,
                        Some(k) => {
                            total.inconclusive("reference-compiler-exceeded-resource-limit(worker killed)");
                            total.count("workers_killed_by_resource_limit", 1);
                            start += k + 1;
                            restarts += 1;
                            if restarts > ch.len() {
                                break;
                            }
                        }
                    }
                }
                total.count("isolated_worker_processes", 1 + restarts as u64);
                total
            })
            .collect();
        let mut acc = Acc::new();
        for a in accs {
            acc.merge(a);
        }
        acc
    }

    // --------------------------------------------------------------------------------------------
    // G-TYGEN: typed program generator

    #[derive(Clone, Copy, PartialEq, Eq, Debug)]
    enum Ty {
        Int,
        Str,
        Bool,
        Arr,
        Dict,
        Content,
        Fun,
    }

    struct Scope {
        vars: Vec<(String, Ty)>,
        n: usize,
    }

    impl Scope {
        fn fresh(&mut self, ty: Ty) -> String {
            self.n += 1;
            let name = format!("{}{}", ["v", "val", "item", "x", "acc-"][self.n % 5], self.n);
            self.vars.push((name.clone(), ty));
            name
        }
        fn pick(&self, ty: Ty, r: &mut Rng) -> Option<String> {
            let c: Vec<&String> = self.vars.iter().filter(|(_, t)| *t == ty).map(|(n, _)| n).collect();
            if c.is_empty() {
                None
            } else {
                Some(c[r.below(c.len())].clone())
            }
        }
    }

    fn e_int(s: &Scope, r: &mut Rng, d: usize) -> String {
        if d == 0 || r.chance(1, 3) {
            if let (true, Some(v)) = (r.chance(1, 2), s.pick(Ty::Int, r)) {
                return v;
            }
            return format!("{}", r.below(50));
        }
        match r.below(12) {
            0 => format!("{} + {}", e_int(s, r, d - 1), e_int(s, r, d - 1)),
            1 => format!("{} * {}", e_int(s, r, d - 1), e_int(s, r, d - 1)),
            2 => format!("({} - {}) * {}", e_int(s, r, d - 1), e_int(s, r, d - 1), e_int(s, r, d - 1)),
            3 => format!("calc.max({}, {})", e_int(s, r, d - 1), e_int(s, r, d - 1)),
            4 => format!("{}.len()", e_arr(s, r, d - 1)),
            5 => format!("{}.sum()", e_arr(s, r, d - 1)),
            6 => format!("if {} {{ {} }} else {{ {} }}", e_bool(s, r, d - 1), e_int(s, r, d - 1), e_int(s, r, d - 1)),
            7 => format!("{}.len()", e_str(s, r, d - 1)),
            8 => match s.pick(Ty::Fun, r) {
                Some(f) => format!("{}({})", f, e_int(s, r, d - 1)),
                None => format!("calc.rem({}, 7)", e_int(s, r, d - 1)),
            },
            9 => format!("-{}", e_int(s, r, 0)),
            10 => format!("{}.at(0, default: {})", e_arr(s, r, d - 1), r.below(9)),
            _ => format!("({})", e_int(s, r, d - 1)),
        }
    }

    fn e_bool(s: &Scope, r: &mut Rng, d: usize) -> String {
        if d == 0 {
            if let (true, Some(v)) = (r.chance(1, 2), s.pick(Ty::Bool, r)) {
                return v;
            }
            return (*r.pick(&["true", "false"])).to_string();
        }
        match r.below(8) {
            0 => format!("{} < {}", e_int(s, r, d - 1), e_int(s, r, d - 1)),
            1 => format!("{} == {}", e_int(s, r, d - 1), e_int(s, r, d - 1)),
            2 => format!("{} in {}", e_int(s, r, d - 1), e_arr(s, r, d - 1)),
            3 => format!("{} not in {}", e_int(s, r, d - 1), e_arr(s, r, d - 1)),
            4 => format!("not {}", e_bool(s, r, d - 1)),
            5 => format!("{} and {}", e_bool(s, r, d - 1), e_bool(s, r, d - 1)),
            6 => format!("{} or {} and {}", e_bool(s, r, d - 1), e_bool(s, r, d - 1), e_bool(s, r, d - 1)),
            _ => format!("{} in {} not in (true,)", e_int(s, r, 0), e_arr(s, r, 0)),
        }
    }

    fn e_str(s: &Scope, r: &mut Rng, d: usize) -> String {
        if d == 0 || r.chance(1, 3) {
            if let (true, Some(v)) = (r.chance(1, 2), s.pick(Ty::Str, r)) {
                return v;
            }
            return format!("\"{}\"", r.pick(&["alpha", "b c", "x-y", "1,2", "q\\\"r", "é"]));
        }
        match r.below(5) {
            0 => format!("{} + {}", e_str(s, r, d - 1), e_str(s, r, d - 1)),
            1 => format!("str({})", e_int(s, r, d - 1)),
            2 => format!("{}.join(\", \")", format!("{}.map(str)", e_arr(s, r, d - 1))),
            3 => format!("upper({})", e_str(s, r, d - 1)),
            _ => format!("repr({})", e_dict(s, r, d - 1)),
        }
    }

    fn e_arr(s: &Scope, r: &mut Rng, d: usize) -> String {
        if d == 0 || r.chance(1, 3) {
            if let (true, Some(v)) = (r.chance(1, 2), s.pick(Ty::Arr, r)) {
                return v;
            }
            return match r.below(4) {
                0 => "()".into(),
                1 => format!("({},)", r.below(9)),
                _ => format!("({}, {}, {})", r.below(9), r.below(9), r.below(9)),
            };
        }
        match r.below(8) {
            0 => format!("{}.map(x => x + {})", e_arr(s, r, d - 1), e_int(s, r, 0)),
            1 => format!("{}.filter(x => x > {})", e_arr(s, r, d - 1), r.below(5)),
            2 => format!("range({})", r.below(6)),
            3 => format!("({}, ..{})", e_int(s, r, d - 1), e_arr(s, r, d - 1)),
            4 => format!("{} + {}", e_arr(s, r, d - 1), e_arr(s, r, d - 1)),
            5 => format!("{}.rev()", e_arr(s, r, d - 1)),
            6 => format!("{}.map(x => x * 2).filter(x => x != {}).sorted()", e_arr(s, r, d - 1), r.below(9)),
            _ => format!("({}, {})", e_int(s, r, d - 1), e_int(s, r, d - 1)),
        }
    }

    fn e_dict(s: &Scope, r: &mut Rng, d: usize) -> String {
        if let (true, Some(v)) = (r.chance(1, 3), s.pick(Ty::Dict, r)) {
            return v;
        }
        match r.below(5) {
            0 => "(:)".into(),
            1 => format!("(a: {})", e_int(s, r, d.min(1))),
            2 => format!("(a: {}, b: {})", e_int(s, r, d.min(1)), e_str(s, r, 0)),
            3 => format!("(\"k k\": {}, (\"a\" + \"b\"): {})", e_int(s, r, 0), e_int(s, r, 0)),
            _ => format!("(..{}, z: {})", "(a: 1)", e_int(s, r, 0)),
        }
    }

    fn e_content(s: &Scope, r: &mut Rng, d: usize) -> String {
        match r.below(8) {
            0 => format!("[value #{}]", paren(&e_int(s, r, d))),
            1 => format!("[*{}* and _{}_]", "bold", "it"),
            2 => format!("text(fill: red)[{}]", "red"),
            3 => format!("[#{} #{}]", paren(&e_int(s, r, d)), paren(&e_str(s, r, d))),
            4 => format!("strong[{}]", "s"),
            5 => format!("box(width: {}pt, height: 5pt, fill: blue)", 5 + r.below(30)),
            6 => match s.pick(Ty::Content, r) {
                Some(v) => v,
                None => "[plain]".into(),
            },
            _ => format!("[$x^{} + {}$]", r.below(5), r.below(9)),
        }
    }

    fn paren(e: &str) -> String {
        let simple = e.chars().all(|c| c.is_alphanumeric() || c == '-' || c == '_') && !e.starts_with('-') && !e.chars().next().map(|c| c.is_ascii_digit()).unwrap_or(true);
        if simple {
            e.to_string()
        } else {
            format!("({})", e)
        }
    }

    pub fn gen_tygen(i: u64) -> Option<String> {
        let mut r = Rng::new(i ^ 0x5459_4745);
        let mut s = Scope { vars: vec![], n: 0 };
        let mut out = String::from("#set page(width: 200pt, height: auto, margin: 8pt)\n");
        let n = 3 + r.below(8);
        for _ in 0..n {
            let d = 1 + r.below(3);
            let stmt = match r.below(24) {
                0 | 1 => {
                    let e = e_int(&s, &mut r, d);
                    format!("#let {} = {}", s.fresh(Ty::Int), e)
                }
                2 => {
                    let e = e_str(&s, &mut r, d);
                    format!("#let {} = {}", s.fresh(Ty::Str), e)
                }
                3 => {
                    let e = e_arr(&s, &mut r, d);
                    format!("#let {} = {}", s.fresh(Ty::Arr), e)
                }
                4 => {
                    let e = e_dict(&s, &mut r, d);
                    format!("#let {} = {}", s.fresh(Ty::Dict), e)
                }
                5 => {
                    let e = e_bool(&s, &mut r, d);
                    if r.chance(1, 3) {
                        // a closure whose body is a `not` over a comparison chain, applied at once
                        let a = e_int(&s, &mut r, 1);
                        format!("#let {} = (p => not p + {} == {} or not {})({})", s.fresh(Ty::Bool), a, r.below(50), e, r.below(9))
                    } else {
                        format!("#let {} = {}", s.fresh(Ty::Bool), e)
                    }
                }
                6 => {
                    let e = e_content(&s, &mut r, d);
                    format!("#let {} = {}", s.fresh(Ty::Content), e)
                }
                7 => {
                    // function int -> int
                    let mut inner = Scope { vars: s.vars.clone(), n: s.n };
                    inner.vars.push(("p".into(), Ty::Int));
                    let body = e_int(&inner, &mut r, d);
                    let name = s.fresh(Ty::Fun);
                    match r.below(6) {
                        0 => format!("#let {}(p) = {}", name, body),
                        1 => format!("#let {} = p => {}", name, body),
                        // bodies that get *optional* braces when they do not fit (return / assignment-like / not)
                        2 => format!("#let {} = p => return {} + {}", name, body, e_int(&inner, &mut r, 1)),
                        3 => format!("#let {}(p) = return {} * {} - {}", name, e_int(&inner, &mut r, 1), e_int(&inner, &mut r, 1), body),
                        4 => format!("#let {} = p => if not p == {} and not {} {{ {} }} else {{ p }}", name, r.below(9), e_bool(&inner, &mut r, 1), body),
                        _ => format!("#let {}(p, k: 2) = {{\n  let t = p * k\n  t + {}\n}}", name, body),
                    }
                }
                8 => {
                    let a = e_int(&s, &mut r, 1);
                    let b = e_str(&s, &mut r, 1);
                    let (x, y) = (s.fresh(Ty::Int), s.fresh(Ty::Str));
                    format!("#let ({}, {}) = ({}, {})", x, y, a, b)
                }
                9 => format!("#repr({})", e_int(&s, &mut r, d)),
                10 => format!("#repr({})", e_arr(&s, &mut r, d)),
                11 => format!("#repr({})", e_dict(&s, &mut r, d)),
                12 => format!("#repr({})", e_bool(&s, &mut r, d)),
                13 => format!("#{}", paren(&e_str(&s, &mut r, d))),
                14 => format!("#{}", paren(&e_content(&s, &mut r, d))),
                15 => format!("#if {} [yes {}] else [no]", e_bool(&s, &mut r, d), r.below(9)),
                16 => format!("#for i in {} [#i, ]", e_arr(&s, &mut r, d)),
                17 => format!("#for (k, v) in {} [#k = #repr(v); ]", e_dict(&s, &mut r, 1)),
                18 => {
                    let e = e_int(&s, &mut r, 1);
                    format!("#{{\n  let n = 0\n  let total = {}\n  while n < 3 {{\n    n += 1\n    total = total + n\n  }}\n  repr(total)\n}}", e)
                }
                19 => format!("= Heading {}\nSome text with #{} inside.", r.below(9), paren(&e_int(&s, &mut r, 1))),
                20 => format!("- item #{}\n  - nested {}\n- other", paren(&e_int(&s, &mut r, 1)), r.below(9)),
                21 => format!("#table(columns: {}, [a], [b], [#{}], [d])", 1 + r.below(3), paren(&e_int(&s, &mut r, 1))),
                22 => format!("#show heading: it => [<< #it.body >>]\n#set text(size: {}pt)", 8 + r.below(5)),
                _ => format!("$ sum_(i=0)^{} i = {} $", r.below(9), r.below(99)),
            };
            out.push_str(&stmt);
            out.push_str(if r.chance(1, 4) { "\n\n" } else { "\n" });
        }
        crate::tree::parse_ok(&out).map(|_| out)
    }

    // --------------------------------------------------------------------------------------------

    pub fn run(tier: Tier) -> (RunMeta, Acc) {
        let seed = util::seed_from_env();
        let mut meta = RunMeta::new(
            "C02",
            tier.name(),
            "exploration",
            "self-contained programs (hand-written programs/, compiling fixtures, typed program generator G-TYGEN, G-TABLE/G-MATH/G-MARKUP documents, snippets) and their comment / whitespace / parenthesis / EOL mutants, each formatted over the width grid × tab sizes; every DISTINCT output is compiled with typst 0.13.1 in an in-memory world and rendered at 2 px/pt; compared: page count, page sizes, pixel hash of every page, document info, warnings — or, when the original fails, the multiset of diagnostics; evaluation = one format call; distinct = input hash; non-trivial = the input compiles and an output that differs from the input text was compiled and rendered",
        );
        let std = Std::load();
        let grid = CfgRule::Grid { tabs: vec![2, 4, 1], reorder: vec![false] };
        let grid1 = CfgRule::Grid { tabs: vec![2], reorder: vec![false] };
        let mut progs = corpus::programs();
        progs.extend(std.snippets.clone());
        progs.extend(std.adversarial.clone());
        progs.extend(corpus::repro_open());
        progs.extend(std.fixtures.iter().filter(|c| c.text.len() < 20_000).cloned());
        let prog_bases = pools::make_bases(corpus::programs().into_iter().chain(std.snippets.clone()).collect());
        let tygen = || GenPool { name: "G-TYGEN".into(), n: gen::GEN_N, f: Box::new(gen_tygen) };
        let tygen_bases = pools::make_bases((0..400u64).filter_map(|i| gen_tygen(i).map(|t| Case::new(t, format!("G-TYGEN#{}", i)))).collect());
        let parts = vec![
            Part::new(ListPool { name: "programs+snippets+adversarial+fixtures<20kB".into(), cases: progs }, usize::MAX, usize::MAX, grid.clone()),
            Part::new(tygen(), 1500, gen::GEN_N, grid.clone()),
            Part::new(GenPool { name: "G-TABLE".into(), n: gen::GEN_N, f: Box::new(gen::gen_table) }, 400, gen::GEN_N, grid1.clone()),
            Part::new(GenPool { name: "G-MATH".into(), n: gen::GEN_N, f: Box::new(gen::gen_math) }, 400, gen::GEN_N, grid1.clone()),
            Part::new(GenPool { name: "G-MARKUP".into(), n: gen::GEN_N, f: Box::new(gen::gen_markup) }, 400, gen::GEN_N, grid1.clone()),
            Part::new(GenPool { name: "G-CODE".into(), n: gen::GEN_N, f: Box::new(gen::gen_code) }, 300, gen::GEN_N, grid1.clone()),
            Part::new(pools::comment_pool(prog_bases.clone()), 2500, 60_000, grid1.clone()),
            Part::new(pools::ws_pool(prog_bases.clone()), 2000, 60_000, grid1.clone()),
            Part::new(pools::paren_pool(prog_bases.clone()), 1500, 30_000, grid1.clone()),
            Part::new(pools::eol_pool(prog_bases.clone()), 500, 10_000, grid1.clone()),
            Part::new(pools::pattern_paren_pool(prog_bases.clone()), 500, usize::MAX, grid1.clone()),
            Part::new(pools::comment_pool(tygen_bases.clone()), 1500, 60_000, grid1.clone()),
            Part::new(pools::ws_pool(tygen_bases.clone()), 1500, 60_000, grid1.clone()),
            Part::new(pools::paren_pool(tygen_bases.clone()), 1500, 60_000, grid1.clone()),
        ];
        let parts: Vec<Part> = match std::env::var("TYV_ONLY_PART").ok().and_then(|s| s.parse::<usize>().ok()) {
            Some(i) => parts.into_iter().enumerate().filter(|(k, _)| *k == i).map(|(_, p)| p).collect(),
            None => parts,
        };
        // The reference compiler can need unbounded time or memory on a generated document (a table whose inset leaves no
        // room, …). Compiles therefore run in worker processes under RLIMIT_AS and a per-case CPU limit; a case that kills
        // its worker is inconclusive ("reference compiler exceeded its resource limit"), never a violation.
        let mut acc = Acc::new();
        let mut pm = vec![];
        for (pi, part) in parts.iter().enumerate() {
            let mut rng = Rng::new(seed ^ util::hash64(&part.pool.name()) ^ (pi as u64) << 32);
            let want = match tier {
                Tier::Quick => part.quick,
                Tier::Thorough => part.thorough,
                Tier::Full => usize::MAX,
            };
            let idx = pools::select(part.pool.len(), want, &mut rng);
            let items: Vec<(usize, u64)> = idx.iter().map(|&i| (i, rng.next())).collect();
            use rayon::prelude::*;
            let jobs: Vec<(Case, Vec<Cfg>)> = items
                .par_iter()
                .filter_map(|&(i, s)| {
                    let case = part.pool.get(i)?;
                    let mut r = Rng::new(s);
                    let cfgs = workload::cfgs_for(&part.cfg, &case.text, tier, &mut r);
                    Some((case, cfgs))
                })
                .collect();
            let rejected = items.len() - jobs.len();
            let a = run_isolated(&jobs);
            pm.push(json!({
                "pool": part.pool.name(),
                "pool_size": part.pool.len(),
                "selected": idx.len(),
                "evaluations": a.evaluations,
                "violations_before_classification": a.violations.len(),
                "rejected_by_admission": rejected,
            }));
            acc.count("rejected_by_admission", rejected as u64);
            acc.merge(a);
        }
        meta.pools = pm;
        meta.assumptions = vec![
            "typst 0.13.1 (compile + typst-render at 2 px/pt) is the reference semantics; rasters and document info are compared, not PDF bytes or introspection state".into(),
            "single-file world without packages or file access: programs that import packages exercise the 'same diagnostics' clause".into(),
        ];
        crate::special::run_fixed_repros("C02", &mut acc);
        (meta, acc)
    }
}
