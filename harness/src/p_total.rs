//! C05 — totality: never panics or hangs; refuses exactly the erroneous inputs.

use std::process::{Command, Stdio};
use std::sync::Arc;

use serde_json::json;

use crate::engine::{Acc, Case, Violation};
use crate::fmtx::{self, Cfg, FmtOut};
use crate::gen;
use crate::mutate;
use crate::pools::{Base, GenPool, MutPool};
use crate::util::{self, Rng};

pub const CPU_BUDGET_NS: u64 = 10_000_000_000;

pub const WIDTHS: [usize; 9] = [0, 1, 2, 7, 40, 80, 1 << 20, 1 << 40, usize::MAX / 2];

fn v(x: &str, cfg: Cfg, origin: &str, oracle: &str, detail: String) -> Violation {
    Violation {
        property: "C05".into(),
        input: x.to_string(),
        cfg: Some(cfg),
        origin: origin.to_string(),
        oracle: oracle.to_string(),
        detail,
        extra: serde_json::Value::Null,
    }
}

/// Observe one call of both entry points. Pushes violations; returns whether the input was erroneous.
pub fn observe(x: &str, cfg: Cfg, origin: &str, acc: &mut Acc) -> bool {
    // breadcrumb for the supervising process, should one of the calls below abort the whole process
    let prev = fmtx::crumb_set(x, cfg);
    let r = observe_inner(x, cfg, origin, acc);
    fmtx::crumb_restore(prev);
    r
}

fn observe_inner(x: &str, cfg: Cfg, origin: &str, acc: &mut Acc) -> bool {
    let t0 = util::thread_cpu_ns();
    let erroneous = match fmtx::guarded(|| typst_syntax::parse(x).erroneous()) {
        Ok(e) => e,
        Err(_) => {
            // the reference parser itself failed: nothing to compare with
            acc.inconclusive("reference-parser-panicked");
            return true;
        }
    };
    let t1 = util::thread_cpu_ns();
    let out = fmtx::fmt(x, cfg);
    let cpu = util::thread_cpu_ns() - t1;
    acc.evaluations += 1;
    acc.max("max_cpu_us_per_call", cpu / 1000);
    let before = acc.violations.len();
    match &out {
        FmtOut::Panic(p) => acc.violations.push(v(x, cfg, origin, "no-panic", format!("format_content panicked: {}", p))),
        FmtOut::Refused if !erroneous => acc.violations.push(v(x, cfg, origin, "refuse-iff-erroneous", "well-formed input was refused".into())),
        FmtOut::Ok(_) if erroneous => acc.violations.push(v(x, cfg, origin, "refuse-iff-erroneous", "input with syntax errors was accepted and rewritten".into())),
        _ => {}
    }
    if cpu > CPU_BUDGET_NS.max(100 * (t1 - t0)) {
        acc.violations.push(v(
            x,
            cfg,
            origin,
            "bounded-time",
            format!("format_content used {} ms CPU (budget {} ms; parsing took {} ms)", cpu / 1_000_000, CPU_BUDGET_NS / 1_000_000, (t1 - t0) / 1_000_000),
        ));
    }
    // the string-to-string convenience entry point (what the wasm build exports)
    if cfg.tab == 2 && !cfg.reorder {
        let w = cfg.width;
        match fmtx::guarded(|| typstyle_core::format_with_width(x, w)) {
            Err(p) => acc.violations.push(v(x, cfg, origin, "no-panic", format!("format_with_width panicked: {}", p))),
            Ok(s) => {
                acc.count("format_with_width_calls", 1);
                if erroneous {
                    if s != x {
                        acc.violations.push(v(x, cfg, origin, "erroneous-unchanged", "format_with_width changed a text with syntax errors".into()));
                    }
                } else if let FmtOut::Ok(y) = &out {
                    if &s != y {
                        acc.violations.push(v(x, cfg, origin, "erroneous-unchanged", "format_with_width differs from format_content on a well-formed text".into()));
                    }
                }
            }
        }
    }
    if acc.violations.len() == before {
        acc.held += 1;
    }
    let xh = util::hash64(x);
    acc.distinct_inputs.insert(xh);
    let changed = matches!(&out, FmtOut::Ok(y) if y != x);
    if erroneous || changed {
        acc.nontrivial.insert(xh);
    }
    if erroneous {
        acc.count("erroneous_inputs_seen", 1);
    }
    erroneous
}

pub fn run_case(case: &Case, cfgs: &[Cfg], acc: &mut Acc) {
    for &cfg in cfgs {
        observe(&case.text, cfg, &case.origin, acc);
    }
    if acc.samples.len() < 3 && case.text.len() < 80 && case.text.len() > 3 {
        acc.sample(json!({"input": case.text, "origin": case.origin, "outcome": format!("{:?}", fmtx::fmt(&case.text, cfgs[0]))}));
    }
}

pub fn cfgs_for(rng: &mut Rng, n: usize) -> Vec<Cfg> {
    let mut out = vec![Cfg::new(80, 2, false), Cfg::new(0, 2, false)];
    for _ in 0..n {
        let w = WIDTHS[rng.below(WIDTHS.len())];
        let t = match rng.below(4) {
            0 => 0,
            1 => 64,
            2 => rng.below(65),
            _ => 1 + rng.below(8),
        };
        out.push(Cfg::new(w, t, rng.chance(1, 4)));
    }
    out.push(Cfg::new(WIDTHS[rng.below(WIDTHS.len())], 2, false));
    out
}

pub fn violated(input: &str, cfg: Cfg) -> Option<bool> {
    let mut acc = Acc::new();
    observe(input, cfg, "recheck", &mut acc);
    Some(!acc.violations.is_empty())
}

// ------------------------------------------------------------------------------------------------
// pools

const ALPHABET: [&str; 70] = [
    "(", ")", "[", "]", "{", "}", "$", "#", "\"", "`", "```", "*", "_", "/*", "*/", "//", "\n", "\r", "\r\n", "\u{2028}",
    "\u{2029}", "\u{0085}", "\x0B", "\x0C", "\t", " ", "\u{00A0}", "\u{3000}", "\u{FEFF}", "\0", ",", ";", ":", "..", "=>",
    "\\", "@", "<", ">", "=", "let ", "if ", "else ", "for ", "in ", "import ", "show ", "set ", "x", "f", "1", "1.5em", "a.b", "+",
    "-", "not ", "e\u{301}", "中", "\u{202E}", "\u{1F600}", "\u{200D}", "- ", "+ ", "/ ", "= ", "&", "^", "'", "|", "~",
];

pub fn gen_random_utf8(i: u64) -> Option<String> {
    let mut r = Rng::new(i ^ 0x5554_4638);
    let long = r.chance(1, 10);
    let n = 1 + r.below(if long { 200 } else { 30 });
    let mut s = String::new();
    let mut opens = 0usize;
    for _ in 0..n {
        let tok = if r.chance(1, 8) {
            // arbitrary scalar value
            let c = loop {
                let u = match r.below(4) {
                    0 => r.below(0x80) as u32,
                    1 => r.below(0x800) as u32,
                    2 => r.below(0x10000) as u32,
                    _ => r.below(0x110000) as u32,
                };
                if let Some(c) = char::from_u32(u) {
                    break c;
                }
            };
            c.to_string()
        } else {
            ALPHABET[r.below(ALPHABET.len())].to_string()
        };
        if matches!(tok.as_str(), "(" | "[" | "{") {
            opens += 1;
            if opens > 300 {
                continue;
            }
        }
        s.push_str(&tok);
    }
    Some(s)
}

pub fn random_pool() -> GenPool {
    GenPool { name: "G-UTF8".into(), n: 200_000, f: Box::new(gen_random_utf8) }
}

pub const HAVOC_PER_BASE: usize = 200;
pub fn havoc_pool(bases: Arc<Vec<Base>>) -> MutPool {
    MutPool::new(
        "M-HAVOC",
        bases,
        |_| HAVOC_PER_BASE,
        |b, j| {
            let mut rng = Rng::new(util::hash64(&b.case.origin) ^ (j as u64).wrapping_mul(0x9E3779B97F4A7C15));
            Some(mutate::havoc(&b.case.text, &mut rng))
        },
    )
}

pub fn prefix_pool(bases: Arc<Vec<Base>>) -> MutPool {
    MutPool::new(
        "M-PREFIX",
        bases,
        |b| b.case.text.chars().count().min(400),
        |b, j| {
            let n = b.case.text.chars().count();
            let cap = n.min(400);
            let k = if cap == 0 { 0 } else { j * n / cap };
            let idx = b.case.text.char_indices().nth(k).map(|(i, _)| i).unwrap_or(b.case.text.len());
            Some(b.case.text[..idx].to_string())
        },
    )
}

// ------------------------------------------------------------------------------------------------
// depth ladders in isolated worker processes

#[derive(Debug, Clone, PartialEq)]
pub enum WorkerOutcome {
    Ok { cpu_ms: u64, out_len: usize },
    Refused,
    Panic(String),
    Signal(i32, String),
    Timeout,
    Other(String),
}

/// Entry point of the worker process: `tyv worker-depth <mode> <family> <depth> <width> <tab>`.
pub fn worker_main(args: &[String]) -> i32 {
    let mode = args[0].as_str();
    let family: usize = args[1].parse().unwrap();
    let depth: usize = args[2].parse().unwrap();
    let width: usize = args[3].parse().unwrap();
    let tab: usize = args[4].parse().unwrap();
    let text = if family >= 1000 { gen::nest_mixed(family as u64, depth) } else { gen::nest_pure(family, depth) };
    if mode == "parse" {
        let root = typst_syntax::parse(&text);
        println!("PARSED erroneous={}", root.erroneous());
        return 0;
    }
    match fmtx::fmt(&text, Cfg::new(width, tab, false)) {
        FmtOut::Ok(y) => {
            // report the worker's own CPU time: the parent decides on CPU time, never on wall-clock time
            let mut ts = libc::timespec { tv_sec: 0, tv_nsec: 0 };
            unsafe {
                libc::clock_gettime(libc::CLOCK_PROCESS_CPUTIME_ID, &mut ts);
            }
            println!("OK {} cpu_ms={}", y.len(), ts.tv_sec as u64 * 1000 + ts.tv_nsec as u64 / 1_000_000);
            0
        }
        FmtOut::Refused => {
            println!("REFUSED");
            0
        }
        FmtOut::Panic(p) => {
            println!("PANIC {}", p);
            3
        }
    }
}

pub fn run_worker(mode: &str, family: usize, depth: usize, width: usize, tab: usize) -> WorkerOutcome {
    let exe = std::env::current_exe().unwrap();
    let start = std::time::Instant::now();
    let child = Command::new(exe)
        .args(["worker-depth", mode, &family.to_string(), &depth.to_string(), &width.to_string(), &tab.to_string()])
        .stdin(Stdio::null())
        .stdout(Stdio::piped())
        .stderr(Stdio::piped())
        .spawn();
    let Ok(child) = child else { return WorkerOutcome::Other("spawn failed".into()) };
    let out = child.wait_with_output();
    let Ok(out) = out else { return WorkerOutcome::Other("wait failed".into()) };
    let wall = start.elapsed().as_millis() as u64;
    let stdout = String::from_utf8_lossy(&out.stdout).to_string();
    let stderr = String::from_utf8_lossy(&out.stderr).to_string();
    use std::os::unix::process::ExitStatusExt;
    if let Some(sig) = out.status.signal() {
        return WorkerOutcome::Signal(sig, util::clip(stderr.trim(), 200));
    }
    if let Some(rest) = stdout.strip_prefix("OK ") {
        let mut it = rest.split_whitespace();
        let out_len = it.next().and_then(|x| x.parse().ok()).unwrap_or(0);
        let cpu_ms = it.next().and_then(|x| x.strip_prefix("cpu_ms=")).and_then(|x| x.parse().ok()).unwrap_or(0);
        let _ = wall;
        return WorkerOutcome::Ok { cpu_ms, out_len };
    }
    if stdout.starts_with("PARSED") {
        return WorkerOutcome::Ok { cpu_ms: wall, out_len: 0 };
    }
    if stdout.starts_with("REFUSED") {
        return WorkerOutcome::Refused;
    }
    if let Some(rest) = stdout.strip_prefix("PANIC ") {
        return WorkerOutcome::Panic(rest.trim().to_string());
    }
    WorkerOutcome::Other(format!("exit={:?} stdout={} stderr={}", out.status.code(), util::clip(&stdout, 100), util::clip(&stderr, 100)))
}

pub const LADDER: [usize; 14] = [1, 2, 4, 8, 16, 32, 64, 128, 256, 512, 1024, 2048, 4096, 8192];

/// Depth ladders: formatting must survive every depth that parsing alone survives.
pub fn run_ladders(families: &[usize], max_depth: usize, acc: &mut Acc) {
    use rayon::prelude::*;
    let results: Vec<Acc> = families
        .par_iter()
        .map(|&fam| {
            let mut acc = Acc::new();
            for &d in LADDER.iter().filter(|&&d| d <= max_depth) {
                let parse = run_worker("parse", fam, d, 80, 2);
                if !matches!(parse, WorkerOutcome::Ok { .. }) {
                    // the parser itself gives up here: the ladder ends (the property quantifies up to this depth)
                    acc.count("ladders_ended_by_parser_limit", 1);
                    acc.max("max_depth_parser_survived", (d / 2) as u64);
                    break;
                }
                // a generated nesting that is not well-formed must be refused (and only then): decided on a shallow instance of
                // the same ladder, in-process
                let shallow = if fam >= 1000 { gen::nest_mixed(fam as u64, d.min(32)) } else { gen::nest_pure(fam, d.min(32)) };
                let erroneous = typst_syntax::parse(&shallow).erroneous();
                for (w, t) in [(80usize, 2usize), (0, 2), (1 << 40, 8)] {
                    let out = run_worker("format", fam, d, w, t);
                    if erroneous {
                        acc.evaluations += 1;
                        acc.count("erroneous_ladder_points", 1);
                        match out {
                            WorkerOutcome::Refused => acc.held += 1,
                            WorkerOutcome::Ok { .. } => acc.violations.push(Violation {
                                property: "C05".into(),
                                input: shallow.clone(),
                                cfg: Some(Cfg::new(w, t, false)),
                                origin: format!("G-NEST family {} depth {}", fam, d),
                                oracle: "depth-ladder".into(),
                                detail: format!("nesting of depth {} has syntax errors but was not refused", d),
                                extra: json!({"family": fam, "depth": d}),
                            }),
                            _ => acc.inconclusive("erroneous-ladder-point-died"),
                        }
                        continue;
                    }
                    acc.evaluations += 1;
                    acc.count("isolated_worker_runs", 1);
                    acc.max("max_depth_formatted", d as u64);
                    let text = if fam >= 1000 { gen::nest_mixed(fam as u64, d.min(64)) } else { gen::nest_pure(fam, d.min(64)) };
                    let extra = json!({"family": fam, "depth": d});
                    match out {
                        WorkerOutcome::Ok { cpu_ms, .. } => {
                            acc.held += 1;
                            acc.max("max_worker_cpu_ms", cpu_ms);
                            acc.nontrivial.insert(util::hash64_parts(&["ladder", &fam.to_string(), &d.to_string()]));
                            if cpu_ms > 60_000 {
                                acc.violations.push(Violation {
                                    property: "C05".into(),
                                    input: text,
                                    cfg: Some(Cfg::new(w, t, false)),
                                    origin: format!("G-NEST family {} depth {}", fam, d),
                                    oracle: "depth-ladder".into(),
                                    detail: format!("worker needed {} ms CPU at depth {} (budget 60 000 ms)", cpu_ms, d),
                                    extra,
                                });
                            }
                        }
                        WorkerOutcome::Refused => {
                            acc.violations.push(Violation {
                                property: "C05".into(),
                                input: text,
                                cfg: Some(Cfg::new(w, t, false)),
                                origin: format!("G-NEST family {} depth {}", fam, d),
                                oracle: "depth-ladder".into(),
                                detail: format!("well-formed nesting of depth {} was refused", d),
                                extra,
                            });
                        }
                        WorkerOutcome::Panic(p) => {
                            acc.violations.push(Violation {
                                property: "C05".into(),
                                input: text,
                                cfg: Some(Cfg::new(w, t, false)),
                                origin: format!("G-NEST family {} depth {}", fam, d),
                                oracle: "depth-ladder".into(),
                                detail: format!("panic at depth {}: {}", d, p),
                                extra,
                            });
                        }
                        WorkerOutcome::Signal(sig, err) => {
                            acc.violations.push(Violation {
                                property: "C05".into(),
                                input: text,
                                cfg: Some(Cfg::new(w, t, false)),
                                origin: format!("G-NEST family {} depth {}", fam, d),
                                oracle: "depth-ladder".into(),
                                detail: format!("worker killed by signal {} at depth {} ({}) although parsing alone survives", sig, d, err),
                                extra,
                            });
                        }
                        WorkerOutcome::Timeout | WorkerOutcome::Other(_) => acc.inconclusive("worker-harness-error"),
                    }
                }
            }
            acc
        })
        .collect();
    for a in results {
        acc.merge(a);
    }
}

pub fn ladder_violated(extra: &serde_json::Value, cfg: Cfg) -> Option<bool> {
    let fam = extra["family"].as_u64()? as usize;
    let d = extra["depth"].as_u64()? as usize;
    match run_worker("format", fam, d, cfg.width, cfg.tab) {
        WorkerOutcome::Ok { .. } => Some(false),
        WorkerOutcome::Timeout | WorkerOutcome::Other(_) => None,
        _ => Some(true),
    }
}


// ------------------------------------------------------------------------------------------------
// aborts of the in-process workload (allocation failure, stack exhaustion): confirmation in an isolated worker

/// `tyv worker-crash <width> <tab> <reorder>`: stdin = source. Calls both entry points on a thread with the same stack size
/// as the check's worker threads. Exit 0 when the calls return (a caught panic included), killed by a signal otherwise.
pub fn worker_crash_main(args: &[String]) -> i32 {
    let w: usize = args[0].parse().unwrap();
    let t: usize = args[1].parse().unwrap();
    let r = args[2] == "1";
    let mut text = String::new();
    use std::io::Read;
    if std::io::stdin().read_to_string(&mut text).is_err() {
        return 4;
    }
    let h = std::thread::Builder::new().stack_size(64 << 20).spawn(move || {
        let _ = fmtx::fmt(&text, Cfg::new(w, t, r));
        let _ = fmtx::guarded(|| typstyle_core::format_with_width(&text, w));
    });
    match h {
        Ok(h) => {
            let _ = h.join();
            println!("RETURNED");
            0
        }
        Err(_) => 4,
    }
}

/// Some((died, how)): does formatting `text` alone, in a fresh process, kill that process?
pub fn dies_in_isolation(text: &str, cfg: Cfg) -> Option<(bool, String)> {
    use std::io::Write;
    use std::os::unix::process::ExitStatusExt;
    let exe = std::env::current_exe().ok()?;
    let mut child = Command::new(exe)
        .args(["worker-crash", &cfg.width.to_string(), &cfg.tab.to_string(), if cfg.reorder { "1" } else { "0" }])
        .stdin(Stdio::piped())
        .stdout(Stdio::piped())
        .stderr(Stdio::piped())
        .env_remove("TYV_CRUMB")
        .spawn()
        .ok()?;
    let mut stdin = child.stdin.take()?;
    let bytes = text.as_bytes().to_vec();
    let feeder = std::thread::spawn(move || {
        let _ = stdin.write_all(&bytes);
    });
    let out = child.wait_with_output().ok()?;
    let _ = feeder.join();
    let stderr = String::from_utf8_lossy(&out.stderr);
    let first = stderr.lines().find(|l| !l.trim().is_empty()).unwrap_or("").to_string();
    if let Some(sig) = out.status.signal() {
        return Some((true, format!("signal {} ({})", sig, util::clip(&first, 160))));
    }
    match out.status.code() {
        Some(0) => Some((false, "returned".into())),
        _ => None,
    }
}


// ------------------------------------------------------------------------------------------------
// The "checked" slice: the same observations in a build with integer-overflow checks and debug assertions on
// (`--profile checked`). Arithmetic on configuration values that wraps silently in a release build panics here — and in
// every debug build of an application that embeds the library.

/// `tyv checked-slice <seed> <quick|thorough>` (run from the `checked` profile binary): prints one `CHECKED-VIOLATION <json>` line
/// per violating (input, cfg) and a final `CHECKED-SLICE …` line.
pub fn checked_slice_main(seed: u64, thorough: bool) -> i32 {
    use crate::pools::ListPool;
    use crate::workload::{self, CfgRule, Part, Std, Tier};
    let std = Std::load();
    let n = if thorough { 40_000 } else { 4_000 };
    let parts = vec![
        Part::new(std.base_list(), usize::MAX, usize::MAX, CfgRule::Fixed(vec![])),
        Part::new(ListPool { name: "corpus(hostile)".into(), cases: crate::corpus::hostile() }, usize::MAX, usize::MAX, CfgRule::Fixed(vec![])),
        Part::new(random_pool(), n, n, CfgRule::Fixed(vec![])),
        Part::new(crate::pools::GenPool { name: "G-NEST".into(), n: gen::GEN_N, f: Box::new(gen::gen_nest) }, n / 4, n / 4, CfgRule::Fixed(vec![])),
        Part::new(crate::pools::GenPool { name: "G-TABLE".into(), n: gen::GEN_N, f: Box::new(gen::gen_table) }, n / 4, n / 4, CfgRule::Fixed(vec![])),
        Part::new(crate::pools::GenPool { name: "G-CODE".into(), n: gen::GEN_N, f: Box::new(gen::gen_code) }, n / 4, n / 4, CfgRule::Fixed(vec![])),
    ];
    let extremes = [usize::MAX / 2, usize::MAX / 3 + 1, usize::MAX / 60 + 1, 1 << 40, 1 << 20];
    let (acc, _) = workload::run_parts(&parts, Tier::Quick, seed, |_, case, rng, acc| {
        if case.text.len() > 100_000 {
            return;
        }
        let mut cfgs = cfgs_for(rng, 2);
        cfgs.push(Cfg::new(extremes[rng.below(extremes.len())], [0usize, 1, 2, 64][rng.below(4)], rng.chance(1, 2)));
        cfgs.push(Cfg::new(usize::MAX / 2, 64, true));
        run_case(case, &cfgs, acc)
    });
    let mut seen = std::collections::HashSet::new();
    let mut n_v = 0;
    for v in &acc.violations {
        // one line per (input, failure site)
        let site: String = v.detail.split('|').next().unwrap_or("").chars().take(120).collect();
        if !seen.insert(util::hash64_parts(&[&v.input, &site])) {
            continue;
        }
        n_v += 1;
        if n_v <= 200 {
            println!("CHECKED-VIOLATION {}", serde_json::to_string(&v.to_json()).unwrap());
        }
    }
    println!("CHECKED-SLICE evaluations={} held={} violations={} distinct_inputs={}", acc.evaluations, acc.held, n_v, acc.distinct_inputs.len());
    0
}

/// Run the checked-profile binary (if it was built) and fold what it saw into `acc`.
pub fn run_checked_slice(seed: u64, thorough: bool, acc: &mut Acc) {
    let bin = util::verif_dir().join("target/checked/tyv");
    if !bin.exists() {
        acc.inconclusive("checked-profile-binary-missing(overflow/debug-assertion slice skipped)");
        return;
    }
    let out = Command::new(&bin)
        .args(["checked-slice", &seed.to_string(), if thorough { "thorough" } else { "quick" }])
        .env("TYV_INNER", "1")
        .stdin(Stdio::null())
        .stderr(Stdio::null())
        .output();
    let Ok(out) = out else {
        acc.inconclusive("checked-slice-did-not-run");
        return;
    };
    let text = String::from_utf8_lossy(&out.stdout).to_string();
    let mut finished = false;
    for line in text.lines() {
        if let Some(j) = line.strip_prefix("CHECKED-VIOLATION ") {
            if let Ok(v) = serde_json::from_str::<serde_json::Value>(j) {
                let mut v = crate::props::violation_from_json(&v);
                v.oracle = format!("{}(overflow checks and debug assertions on)", v.oracle);
                v.extra = json!({"checked_profile": true});
                acc.violations.push(v);
            }
        } else if let Some(rest) = line.strip_prefix("CHECKED-SLICE ") {
            finished = true;
            for kv in rest.split_whitespace() {
                if let Some((k, v)) = kv.split_once('=') {
                    if let Ok(n) = v.parse::<u64>() {
                        acc.count(&format!("checked_profile_{}", k), n);
                        if k == "evaluations" {
                            acc.evaluations += n;
                        }
                        if k == "held" {
                            acc.held += n;
                        }
                    }
                }
            }
        }
    }
    if !finished {
        // the slice itself died (abort): C05's business, but which input is unknown here
        acc.inconclusive("checked-slice-ended-abnormally");
    }
}

/// Re-evaluate one (input, cfg) in the checked-profile binary (replay of a violation found by the slice).
pub fn checked_one(input: &str, cfg: Cfg) -> Option<bool> {
    use std::io::Write;
    let bin = util::verif_dir().join("target/checked/tyv");
    if !bin.exists() {
        return None;
    }
    let mut child = Command::new(&bin)
        .args(["checked-one", &cfg.width.to_string(), &cfg.tab.to_string(), if cfg.reorder { "1" } else { "0" }])
        .env("TYV_INNER", "1")
        .stdin(Stdio::piped())
        .stdout(Stdio::piped())
        .stderr(Stdio::null())
        .spawn()
        .ok()?;
    child.stdin.take()?.write_all(input.as_bytes()).ok()?;
    let out = child.wait_with_output().ok()?;
    let t = String::from_utf8_lossy(&out.stdout).to_string();
    if t.contains("CHECKED-ONE violated") {
        Some(true)
    } else if t.contains("CHECKED-ONE held") {
        Some(false)
    } else {
        // died: that is a violation of totality as well
        Some(true)
    }
}

pub fn checked_one_main(args: &[String]) -> i32 {
    use std::io::Read;
    let cfg = Cfg::new(args[0].parse().unwrap(), args[1].parse().unwrap(), args[2] == "1");
    let mut text = String::new();
    std::io::stdin().read_to_string(&mut text).unwrap();
    let mut acc = Acc::new();
    observe(&text, cfg, "recheck", &mut acc);
    println!("CHECKED-ONE {}", if acc.violations.is_empty() { "held" } else { "violated" });
    0
}
