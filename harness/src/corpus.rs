//! Committed corpora under /verif/corpus.

use std::path::{Path, PathBuf};

use crate::engine::Case;
use crate::util;

pub fn corpus_dir() -> PathBuf {
    util::verif_dir().join("corpus")
}

fn walk_typ(dir: &Path, out: &mut Vec<PathBuf>) {
    let Ok(rd) = std::fs::read_dir(dir) else { return };
    let mut entries: Vec<_> = rd.filter_map(|e| e.ok()).map(|e| e.path()).collect();
    entries.sort();
    for p in entries {
        if p.is_dir() {
            walk_typ(&p, out);
        } else if p.extension().map(|e| e == "typ").unwrap_or(false) {
            out.push(p);
        }
    }
}

fn load_dir(sub: &str) -> Vec<Case> {
    let base = corpus_dir().join(sub);
    let mut files = vec![];
    walk_typ(&base, &mut files);
    files
        .into_iter()
        .filter_map(|p| {
            let text = std::fs::read_to_string(&p).ok()?;
            let rel = p.strip_prefix(corpus_dir()).unwrap_or(&p).to_string_lossy().to_string();
            Some(Case::new(text, rel))
        })
        .collect()
}

/// The repository's 190 fixture inputs, copied at the pinned commit.
pub fn fixtures() -> Vec<Case> {
    load_dir("fixtures")
}

/// Fixtures small enough for exhaustive-style mutation (unit tests, < 6 kB).
pub fn small_fixtures() -> Vec<Case> {
    fixtures().into_iter().filter(|c| c.text.len() < 6000).collect()
}

pub fn programs() -> Vec<Case> {
    load_dir("programs")
}

fn load_sep(file: &str, tag: &str) -> Vec<Case> {
    let path = corpus_dir().join(file);
    let Ok(s) = std::fs::read_to_string(&path) else { return vec![] };
    let mut out = vec![];
    let mut cur = String::new();
    let mut idx = 0;
    for line in s.split_inclusive('\n') {
        if line.trim_end_matches('\n') == "%%%%" {
            // drop the final newline that precedes the separator
            if cur.ends_with('\n') {
                cur.pop();
            }
            out.push(Case::new(std::mem::take(&mut cur), format!("{}#{}", tag, idx)));
            idx += 1;
        } else {
            cur.push_str(line);
        }
    }
    if cur.ends_with('\n') {
        cur.pop();
    }
    if !cur.is_empty() {
        out.push(Case::new(cur, format!("{}#{}", tag, idx)));
    }
    out
}

/// Hand-written minimal sources, one construct × context each.
pub fn snippets() -> Vec<Case> {
    load_sep("snippets.txt", "snippet")
}

/// Shapes aimed at partial functions and boundary conditions in the code, and finding reproducers.
pub fn adversarial() -> Vec<Case> {
    load_sep("adversarial.txt", "adv")
}

/// Sources built around the unit-selection rules of range formatting (C13 only): items that start mid-line, dot chains as callees,
/// code embedded in math, padded content blocks, hand-indented code, non-LF line ends.
pub fn range_shapes() -> Vec<Case> {
    load_sep("range_shapes.txt", "range-shape")
}

/// Reproducers of *open* findings: part of every base workload (they print KNOWN-FINDING lines),
/// but never used as bases for mutation (mutating a failing input only yields more of the same).
pub fn repro_open() -> Vec<Case> {
    load_sep("repro_open.txt", "repro")
}

/// Non-well-formed / degenerate inputs (JSON array of strings).
pub fn hostile() -> Vec<Case> {
    let path = corpus_dir().join("hostile.json");
    let Ok(s) = std::fs::read_to_string(&path) else { return vec![] };
    let v: serde_json::Value = serde_json::from_str(&s).unwrap_or(serde_json::Value::Null);
    v.as_array()
        .map(|a| {
            a.iter()
                .enumerate()
                .filter_map(|(i, x)| x.as_str().map(|s| Case::new(s, format!("hostile#{}", i))))
                .collect()
        })
        .unwrap_or_default()
}
